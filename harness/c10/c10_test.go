// Package c10: teardown of one peer or entity never leaks into another.
package c10

import (
	"fmt"
	"reflect"
	"sort"
	"strings"
	"sync"
	"testing"
	"time"

	"github.com/enbility/spine-go/api"
	"github.com/enbility/spine-go/model"
	"pgregory.net/rapid"

	"verifharness/gen"
	"verifharness/listgen"
	"verifharness/refmodel"
	"verifharness/regs"
	"verifharness/world"
)

func TestMain(m *testing.M) { world.Main(m) }

const approvalTimeout = 30 * time.Millisecond

// remote server features every peer announces (targets of local client features)
var remoteServers = []struct {
	ref    regs.Ref
	client func(w *regs.W) api.FeatureLocalInterface
}{
	{regs.Ref{Ent: []uint{1}, Feat: 4}, func(w *regs.W) api.FeatureLocalInterface { return w.LocalClient }},  // Measurement server
	{regs.Ref{Ent: []uint{2}, Feat: 3}, func(w *regs.W) api.FeatureLocalInterface { return w.LocalClient2 }}, // LoadControl server
	{regs.Ref{Ent: []uint{3}, Feat: 2}, func(w *regs.W) api.FeatureLocalInterface { return w.LocalClient2 }}, // LoadControl server of an entity announced later
}

// extraEntities are entities a peer may announce later on (by a partial "added" entry or by a
// complete notification that lists them); like everything else they have the same numbers on every peer.
var extraEntities = []world.EntSpec{
	{Addr: []uint{3}, Type: model.EntityTypeTypeEV, Feats: []world.FeatSpec{
		{ID: 1, Type: model.FeatureTypeTypeMeasurement, Role: model.RoleTypeClient},
		{ID: 2, Type: model.FeatureTypeTypeLoadControl, Role: model.RoleTypeServer, Funcs: []world.FuncSpec{{Fn: model.FunctionTypeLoadControlLimitListData, Read: true, Write: true}}},
	}},
	{Addr: []uint{4}, Type: model.EntityTypeTypeHeatPumpAppliance, Feats: []world.FeatSpec{
		{ID: 1, Type: model.FeatureTypeTypeElectricalConnection, Role: model.RoleTypeClient},
	}},
}

// entDomain: every entity a peer may have besides its device information entity [0], in the order
// in which complete announcements list them.
func entDomain() []world.EntSpec { return append(regs.PeerEntities(), extraEntities...) }

func entKey(addr []uint) string { return fmt.Sprint(addr) }

// fullTree is the set of entities (keys) every peer announces in its discovery reply.
func fullTree() map[string]bool {
	tr := map[string]bool{}
	for _, e := range regs.PeerEntities() {
		tr[entKey(e.Addr)] = true
	}
	return tr
}

type watch struct {
	peer *world.Peer
	len  int
	what string
}

type machine struct {
	w       *regs.W
	hist    []string
	ops     []string
	pending map[int]int // pending approvals per peer
	watches []watch     // removed connections: nothing may be written to them any more
	// tree: per peer the entities (besides [0]) it has at present, by what it announced; nil for a
	// peer that has not announced itself
	tree map[int]map[string]bool
	// had: per peer the entities it has had at some time on its present connection (the application may
	// still hold addresses of their features)
	had map[int]map[string]bool
	// noAddr: peers whose discovery data never carries a device address (the element is optional): the
	// stack knows them by SKI only, their entity and feature addresses have no device part
	noAddr map[int]bool
	// localGone: local entities (keys) the application has removed from the device
	localGone map[string]bool
	// a teardown (connection or remote entity) of a peer that held registry entries on a server feature of a
	// local entity removed before
	orphanTeardowns int
	shared          bool // >= 2 peers held state on the same local feature at the moment of a removal
	removals        int
	mu              sync.Mutex
	withheld        []*api.Message
	slept           bool
	late            int
	reconnects      int
	// a late message while other peers are connected (the core event handler is subscribed)
	lateWithOthers bool
	// a late message on the old connection of a device that has connected again meanwhile
	lateAfterReconnect bool
}

func (m *machine) logf(format string, a ...any) { m.hist = append(m.hist, fmt.Sprintf(format, a...)) }
func (m *machine) history() string              { return "\n history:\n  " + strings.Join(m.hist, "\n  ") }

// has: the peer has announced itself and has this entity at present.
func (m *machine) has(pi int, ent []uint) bool { return m.tree[pi] != nil && m.tree[pi][entKey(ent)] }

// removedInitial: an entity of the peer's discovery reply that it has announced as removed since.
func (m *machine) removedInitial(pi int, ent []uint) bool {
	return m.tree[pi] != nil && fullTree()[entKey(ent)] && !m.tree[pi][entKey(ent)]
}

// syncEnts: the peer's model of its own tree follows what it announced.
func (m *machine) syncEnts(pi int) {
	var ents []world.EntSpec
	for _, e := range entDomain() {
		if m.tree[pi][entKey(e.Addr)] {
			ents = append(ents, e)
			if m.had[pi] == nil {
				m.had[pi] = map[string]bool{}
			}
			m.had[pi][entKey(e.Addr)] = true
		}
	}
	m.w.Peers[pi].Ents = world.WithDeviceInfo(ents)
}

// everHad: the peer has this entity or had it earlier on this connection.
func (m *machine) everHad(pi int, ent []uint) bool {
	return m.tree[pi] != nil && (fullTree()[entKey(ent)] || m.had[pi][entKey(ent)])
}

// stripDeviceAddress takes the (optional) device address out of discovery data: out of the device
// description and out of the entity and feature addresses.
func stripDeviceAddress(data *model.NodeManagementDetailedDiscoveryDataType) *model.NodeManagementDetailedDiscoveryDataType {
	if data.DeviceInformation != nil && data.DeviceInformation.Description != nil {
		data.DeviceInformation.Description.DeviceAddress = nil
	}
	for i := range data.EntityInformation {
		if d := data.EntityInformation[i].Description; d != nil && d.EntityAddress != nil {
			d.EntityAddress.Device = nil
		}
	}
	for i := range data.FeatureInformation {
		if d := data.FeatureInformation[i].Description; d != nil && d.FeatureAddress != nil {
			d.FeatureAddress.Device = nil
		}
	}
	return data
}

// discovery: the discovery data of a message of peer pi; a peer that does not tell its device address
// never does.
func (m *machine) discovery(pi int, data *model.NodeManagementDetailedDiscoveryDataType) *model.NodeManagementDetailedDiscoveryDataType {
	if m.noAddr[pi] {
		return stripDeviceAddress(data)
	}
	return data
}

// announceWithoutAddress: the peer's discovery reply (as world.Peer.Announce) without device address.
func announceWithoutAddress(p *world.Peer, ents []world.EntSpec) {
	ents = world.WithDeviceInfo(ents)
	p.Ents = ents
	cmd := model.CmdType{NodeManagementDetailedDiscoveryData: stripDeviceAddress(p.DiscoveryData(ents, nil))}
	p.Send(p.Msg(model.CmdClassifierTypeReply, p.NM(), world.LocalNM(), false, p.DiscoveryRef, cmd))
	p.W.Sync()
	p.Cap.Drain()
	p.W.Events.Drain()
}

func (m *machine) live(t *rapid.T, label string) int {
	var idx []int
	for i, p := range m.w.Peers {
		if !p.Gone {
			idx = append(idx, i)
		}
	}
	if len(idx) == 0 {
		t.Skip("no connected peer")
	}
	return idx[rapid.IntRange(0, len(idx)-1).Draw(t, label)]
}

// snapshot of everything the stack holds for one peer, in model terms
type snap struct {
	Subs     []string
	Binds    []string
	Book     []string // client-side bookkeeping towards this peer's server features
	Resolved bool
	BySki    bool
	ByAddr   bool
}

func (m *machine) snapshot(pi int) snap {
	p := m.w.Peers[pi]
	s := snap{}
	dev := m.w.Local.RemoteDeviceForSki(p.Ski)
	// (the stack learns the address from the discovery data: a peer that has not announced itself is
	// resolved by SKI only)
	s.BySki = dev != nil
	s.ByAddr = m.w.Local.RemoteDeviceForAddress(p.Addr) != nil
	s.Resolved = s.BySki && (s.ByAddr || p.Ents == nil || m.noAddr[pi])
	// registries are filtered by SKI; the Peer keeps the device object also after removal
	for _, e := range m.w.Local.SubscriptionManager().Subscriptions(p.Dev) {
		s.Subs = append(s.Subs, fmt.Sprintf("%s->%s", refOf(e.ClientFeature.Address()), refOf(e.ServerFeature.Address())))
	}
	for _, e := range m.w.Local.BindingManager().Bindings(p.Dev) {
		s.Binds = append(s.Binds, fmt.Sprintf("%s->%s", refOf(e.ClientFeature.Address()), refOf(e.ServerFeature.Address())))
	}
	for _, rs := range remoteServers {
		a := p.FA(rs.ref.Ent, rs.ref.Feat)
		if rs.client(m.w).HasSubscriptionToRemote(a) {
			s.Book = append(s.Book, "sub:"+rs.ref.String())
		}
		if rs.client(m.w).HasBindingToRemote(a) {
			s.Book = append(s.Book, "bind:"+rs.ref.String())
		}
	}
	// the stack's own client-side bookkeeping: its node management feature subscribes to the peer's node management
	// when the peer has announced itself - that refers to the device as well
	if nm := m.w.Local.NodeManagement(); nm != nil && nm.HasSubscriptionToRemote(p.NM()) {
		s.Book = append(s.Book, "sub:node-management-of-the-stack")
	}
	sort.Strings(s.Subs)
	sort.Strings(s.Binds)
	sort.Strings(s.Book)
	return s
}

func refOf(a *model.FeatureAddressType) string {
	var ent []uint
	for _, e := range a.Entity {
		ent = append(ent, uint(e))
	}
	return regs.Ref{Ent: ent, Feat: uint(*a.Feature)}.String()
}

func inEntity(entry string, ent string) bool { return strings.HasPrefix(entry, ent+"/") }

// ---- operations that build up state

// laterEntityClient: sometimes the Measurement client of an entity the peer announced later on is
// the client of a Measurement call (the shared call generator only knows the initial tree).
func (m *machine) laterEntityClient(t *rapid.T, c regs.Call) regs.Call {
	if c.Type == model.FeatureTypeTypeMeasurement && m.has(c.Peer, []uint{3}) && rapid.IntRange(0, 2).Draw(t, "clientOfLaterEntity") == 0 {
		c.Client = regs.Ref{Ent: []uint{3}, Feat: 1}
		world.Label("call/client-of-later-entity")
	}
	return c
}

func (m *machine) subscribe(t *rapid.T) {
	c := regs.DrawCall(t, m.w, "sub")
	if m.w.Peers[c.Peer].Gone || m.removedInitial(c.Peer, c.Client.Ent) {
		t.Skip("gone")
	}
	c = m.laterEntityClient(t, c)
	_, ok := m.w.Do(c, world.SubscribeCall(m.w.ClientAddr(c), m.w.ServerAddr(c), c.Type))
	m.logf("subscribe %s => %v", c, ok)
	m.ops = append(m.ops, "sub")
}

func (m *machine) bind(t *rapid.T) {
	c := regs.DrawCall(t, m.w, "bind")
	if m.w.Peers[c.Peer].Gone || m.removedInitial(c.Peer, c.Client.Ent) {
		t.Skip("gone")
	}
	c = m.laterEntityClient(t, c)
	_, ok := m.w.Do(c, world.BindCall(m.w.ClientAddr(c), m.w.ServerAddr(c), c.Type))
	m.logf("bind %s => %v", c, ok)
	m.ops = append(m.ops, "bind")
}

func (m *machine) localClientOp(t *rapid.T) {
	pi := m.live(t, "peer")
	rs := remoteServers[rapid.IntRange(0, len(remoteServers)-1).Draw(t, "remoteServer")]
	late := ""
	if m.tree[pi] != nil && !m.has(pi, rs.ref.Ent) {
		if !m.everHad(pi, rs.ref.Ent) {
			t.Skip("not announced yet")
		}
		// the application reacts late: it got the address while the peer had the entity and uses it after
		// the peer has announced the entity as removed. Whether the call records anything is the code's
		// choice; what it records refers to that device and goes with its connection.
		late = " (an entity the peer has announced as removed meanwhile)"
		world.Label("local-client/late-call-for-removed-entity")
	}
	if m.tree[pi] == nil && !fullTree()[entKey(rs.ref.Ent)] {
		t.Skip("not in the tree the peer is going to announce")
	}
	a := m.w.Peers[pi].FA(rs.ref.Ent, rs.ref.Feat)
	recorded := false
	if rapid.Bool().Draw(t, "bindNotSub") {
		_, err := rs.client(m.w).BindToRemote(a)
		recorded = rs.client(m.w).HasBindingToRemote(a)
		m.logf("local client binds to peer%d %s%s => err=%v", pi+1, rs.ref, late, err != nil)
	} else {
		_, err := rs.client(m.w).SubscribeToRemote(a)
		recorded = rs.client(m.w).HasSubscriptionToRemote(a)
		m.logf("local client subscribes to peer%d %s%s => err=%v", pi+1, rs.ref, late, err != nil)
	}
	if late != "" && recorded {
		world.Label("local-client/late-call-for-removed-entity/recorded")
	}
	m.w.Peers[pi].Cap.Drain()
	if late != "" {
		m.ops = append(m.ops, "localclient-late")
	} else {
		m.ops = append(m.ops, "localclient")
	}
}

// pendingWrite: a bound client of the LoadControl server (which has an approval callback that
// withholds its verdict) sends a write; it stays pending until the approval time-out.
func (m *machine) pendingWrite(t *rapid.T) {
	var cands []struct {
		pi     int
		client string
	}
	for pi, p := range m.w.Peers {
		if p.Gone {
			continue
		}
		for _, b := range m.snapshot(pi).Binds {
			parts := strings.Split(b, "->")
			if parts[1] == regs.ServerRefs[1].String() {
				cands = append(cands, struct {
					pi     int
					client string
				}{pi, parts[0]})
			}
		}
	}
	if len(cands) == 0 {
		t.Skip("nobody bound to the approval feature")
	}
	c := cands[rapid.IntRange(0, len(cands)-1).Draw(t, "writer")]
	var client regs.Ref
	for _, r := range regs.ClientRefs {
		if r.String() == c.client {
			client = r
		}
	}
	f := gen.ByFunction(m.w.Servers[1].Writable)
	p := m.w.Peers[c.pi]
	u := refmodel.Update{Items: listgen.Items(t, f, 2, gen.Opt{}, "items")}
	p.Send(p.Msg(model.CmdClassifierTypeWrite, p.FA(client.Ent, client.Feat), m.w.Servers[1].F.Address(), true, nil, listgen.Cmd(f, u)))
	m.w.Sync()
	m.pending[c.pi]++
	m.logf("peer%d %s writes to the approval feature: pending", c.pi+1, client)
	m.ops = append(m.ops, "pending")
}

func (m *machine) dataChange(t *rapid.T) {
	si := rapid.IntRange(0, len(m.w.Servers)-1).Draw(t, "server")
	if m.localServerGone(si) {
		t.Skip("the application has removed the entity of this feature")
	}
	f := gen.ByFunction(m.w.Servers[si].Writable)
	m.w.Servers[si].F.SetData(f.Fn, refmodel.Payload(f, listgen.Items(t, f, 2, gen.Opt{}, "items")))
	m.logf("SetData server#%d", si)
	m.ops = append(m.ops, "data")
	m.checkWatches(t, "data change")
}

// localServerGone: the application has removed the local entity of server feature #si.
func (m *machine) localServerGone(si int) bool {
	return m.localGone[entKey(regs.ServerRefs[si].Ent)]
}

// orphans counts the registry entries of a peer (optionally: of the given entities of that peer
// only) whose local server feature belongs to a local entity the application has removed.
func (m *machine) orphans(s snap, ents []string) int {
	n := 0
	for _, e := range append(append([]string{}, s.Subs...), s.Binds...) {
		parts := strings.Split(e, "->")
		inEnts := ents == nil
		for _, g := range ents {
			inEnts = inEnts || inEntity(parts[0], g)
		}
		for g := range m.localGone {
			if inEnts && inEntity(parts[1], g) {
				n++
			}
		}
	}
	return n
}

// localEntityRemoved: the application removes one of its entities ([2] or the nested [1,1]; entity
// [1] with the client features and the approval feature stays) from the device. What becomes of the
// registry entries peers hold on its server features is not the statement's subject (nothing is
// asserted here beyond the silence of removed connections); whatever is in the registries at a
// later teardown is judged then, one removal event per entry.
func (m *machine) localEntityRemoved(t *rapid.T) {
	type cand struct {
		key string
		e   api.EntityLocalInterface
	}
	var cands []cand
	for _, c := range []cand{{"[2]", m.w.Entity2}, {"[1 1]", m.w.Entity3}} {
		if !m.localGone[c.key] {
			cands = append(cands, c)
		}
	}
	if len(cands) == 0 {
		t.Skip("both removable local entities are gone")
	}
	c := cands[rapid.IntRange(0, len(cands)-1).Draw(t, "localEntity")]
	held := 0
	m.localGone[c.key] = true
	for pi, p := range m.w.Peers {
		if !p.Gone {
			held += m.orphans(m.snapshot(pi), nil)
		}
	}
	m.w.Local.RemoveEntity(c.e)
	m.w.Sync()
	for _, p := range m.w.Peers {
		if !p.Gone {
			p.Cap.Drain()
		}
	}
	m.w.Events.Drain()
	left := 0
	for pi, p := range m.w.Peers {
		if !p.Gone {
			left += m.orphans(m.snapshot(pi), nil)
		}
	}
	m.logf("the application removes its entity %s (registry entries of connected peers on server features of removed local entities: %d before, %d afterwards)", c.key, held, left)
	m.ops = append(m.ops, "local-entity-removed:"+c.key)
	world.Label("op/local-entity-removed")
	if left > 0 {
		world.Label("local-entity-removed/registry-entries-kept")
	}
	m.checkWatches(t, "the removal of a local entity by the application")
}

func (m *machine) checkWatches(t *rapid.T, when string) {
	for _, wt := range m.watches {
		if n := wt.peer.Cap.Len(); n != wt.len {
			msgs := wt.peer.Cap.All()
			world.Fail(t, "C10/write-to-removed-connection/"+classify(msgs[wt.len:]), "%d datagram(s) were written to the removed connection of %s (%s), observed after %s: first is a %s %s%s",
				n-wt.len, wt.peer.Ski, wt.what, when, msgs[wt.len].Classifier(), world.JSON(msgs[wt.len].Cmd()), m.history())
		}
	}
}

func classify(msgs []world.Sent) string {
	if len(msgs) == 0 {
		return "none"
	}
	s := msgs[0]
	if s.Classifier() == model.CmdClassifierTypeResult {
		return "result"
	}
	return string(s.Classifier())
}

// ---- removals

// sharedState: do >= 2 peers hold registry entries on the same local server feature?
func (m *machine) sharedState(victim int) bool {
	servers := map[string]map[int]bool{}
	for pi, p := range m.w.Peers {
		if p.Gone {
			continue
		}
		s := m.snapshot(pi)
		for _, e := range append(append([]string{}, s.Subs...), s.Binds...) {
			srv := strings.Split(e, "->")[1]
			if servers[srv] == nil {
				servers[srv] = map[int]bool{}
			}
			servers[srv][pi] = true
		}
	}
	for _, peers := range servers {
		if peers[victim] && len(peers) >= 2 {
			return true
		}
	}
	return false
}

func (m *machine) countRemoveEvents(evs []world.Ev, ski string) (subs, binds, devs, ents, foreign int) {
	for _, e := range evs {
		if e.P.ChangeType != api.ElementChangeRemove {
			continue
		}
		if e.P.Ski != ski {
			foreign++
			continue
		}
		switch e.P.EventType {
		case api.EventTypeSubscriptionChange:
			subs++
		case api.EventTypeBindingChange:
			binds++
		case api.EventTypeDeviceChange:
			devs++
		case api.EventTypeEntityChange:
			ents++
		}
	}
	return
}

// othersUntouchedAndServed compares every other peer's snapshot and probes it with a read.
func (m *machine) othersUntouchedAndServed(t *rapid.T, victim int, before map[int]snap, what string) {
	for pi, p := range m.w.Peers {
		if pi == victim || p.Gone {
			continue
		}
		after := m.snapshot(pi)
		if !reflect.DeepEqual(before[pi], after) {
			kind := "registry"
			if reflect.DeepEqual(before[pi].Subs, after.Subs) && reflect.DeepEqual(before[pi].Binds, after.Binds) {
				kind = "bookkeeping"
			}
			if !reflect.DeepEqual(before[pi].Binds, after.Binds) {
				kind = "bindings"
			}
			world.Fail(t, fmt.Sprintf("C10/other-peer-lost-state/%s/%s", what, kind), "%s of peer%d changed the state of peer%d\n before: %+v\n after:  %+v%s", what, victim+1, pi+1, before[pi], after, m.history())
		}
		// still served: a read gets exactly one reply
		p.Cap.Drain()
		f := gen.ByFunction(m.w.Servers[0].Writable)
		cmd := model.CmdType{}
		reflect.ValueOf(&cmd).Elem().FieldByName(f.CmdField).Set(reflect.New(f.DataType))
		d := p.Msg(model.CmdClassifierTypeRead, p.FA([]uint{1}, 1), m.w.Servers[0].F.Address(), false, nil, cmd)
		if p.Ents == nil || !m.has(pi, []uint{1}) {
			// all a peer that has not announced itself (or has announced its entity [1] as removed) can ask for: node management data
			d = p.Msg(model.CmdClassifierTypeRead, p.NM(), world.LocalNM(), false, nil, model.CmdType{NodeManagementDetailedDiscoveryData: &model.NodeManagementDetailedDiscoveryDataType{}})
		}
		p.Send(d)
		m.w.Sync()
		replies := 0
		for _, s := range p.Cap.Drain() {
			if s.Classifier() == model.CmdClassifierTypeReply && s.Ref() != nil && *s.Ref() == *d.Header.MsgCounter {
				replies++
			}
		}
		if replies != 1 {
			world.Fail(t, "C10/other-peer-not-served/"+what, "after %s of peer%d, a read by peer%d got %d replies%s", what, victim+1, pi+1, replies, m.history())
		}
	}
}

func (m *machine) disconnect(t *rapid.T) {
	victim := m.live(t, "victim")
	during := rapid.Bool().Draw(t, "duringOtherMessage")
	p := m.w.Peers[victim]
	before := map[int]snap{}
	for pi := range m.w.Peers {
		before[pi] = m.snapshot(pi)
	}
	if m.sharedState(victim) {
		m.shared = true
	}
	if m.orphans(before[victim], nil) > 0 {
		m.orphanTeardowns++
		world.Label("teardown/disconnect/entries-on-removed-local-entity")
	}
	m.w.Events.Drain()
	how := "disconnect"
	other := -1
	if during {
		for pi, q := range m.w.Peers {
			if pi != victim && !q.Gone && q.Ents != nil && m.has(pi, []uint{1}) {
				other = pi
			}
		}
	}
	if other >= 0 {
		// remove the connection from inside the writer of another peer, i.e. while a message
		// of that peer is being processed
		how = "disconnect-during-message"
		q := m.w.Peers[other]
		var once sync.Once
		q.Cap.SetOnWrite(func([]byte) {
			once.Do(func() { m.w.Local.RemoveRemoteDeviceConnection(p.Ski) })
		})
		f := gen.ByFunction(m.w.Servers[0].Writable)
		cmd := model.CmdType{}
		reflect.ValueOf(&cmd).Elem().FieldByName(f.CmdField).Set(reflect.New(f.DataType))
		done := make(chan struct{})
		go func() {
			defer close(done)
			q.Send(q.Msg(model.CmdClassifierTypeRead, q.FA([]uint{1}, 1), m.w.Servers[0].F.Address(), false, nil, cmd))
		}()
		select {
		case <-done:
		case <-time.After(10 * time.Second):
			world.Fail(t, "C10/deadlock/disconnect-during-message", "removing a connection while a message of another peer is processed did not return%s", m.history())
		}
		q.Cap.SetOnWrite(nil)
		q.Cap.Drain()
	} else {
		m.w.Local.RemoveRemoteDeviceConnection(p.Ski)
	}
	p.Gone = true
	m.w.Sync()
	m.watches = append(m.watches, watch{peer: p, len: p.Cap.Len(), what: how})
	m.removals++
	m.logf("%s peer%d (had %+v, pending approvals %d)", how, victim+1, before[victim], m.pending[victim])
	m.ops = append(m.ops, how)
	// all of the victim's state is gone
	after := m.snapshot(victim)
	if len(after.Subs)+len(after.Binds)+len(after.Book) != 0 || after.BySki || after.ByAddr {
		kind := "registry"
		if len(after.Book) != 0 {
			kind = "bookkeeping"
		}
		if after.BySki || after.ByAddr {
			kind = "still-resolvable"
		}
		world.Fail(t, "C10/removed-device-state-left/"+kind, "after %s peer%d still has state: %+v%s", how, victim+1, after, m.history())
	}
	subs, binds, devs, _, foreign := m.countRemoveEvents(m.w.Events.Drain(), p.Ski)
	if subs != len(before[victim].Subs) || binds != len(before[victim].Binds) || devs != 1 || foreign != 0 {
		world.Fail(t, "C10/remove-events/"+how, "%s of peer%d published %d subscription, %d binding, %d device remove events and %d for other devices; expected %d, %d, 1, 0%s", how, victim+1, subs, binds, devs, foreign, len(before[victim].Subs), len(before[victim].Binds), m.history())
	}
	m.othersUntouchedAndServed(t, victim, before, how)
}

// lateResponse: a message of a removed peer that was already read from the socket is handed to the
// reader of its connection after the removal. Only messages that ask for no answer are used (the
// discovery reply the stack asked for after connecting, a notification, a result): whatever the
// stack makes of them, it has nothing to write to the removed connection and the other peers keep
// their state.
func (m *machine) lateResponse(t *rapid.T) {
	if len(m.watches) == 0 {
		t.Skip("no removed connection")
	}
	wt := m.watches[rapid.IntRange(0, len(m.watches)-1).Draw(t, "removed")]
	p := wt.peer
	alive := false
	for _, q := range m.w.Peers {
		alive = alive || !q.Gone
	}
	before := map[int]snap{}
	for pi := range m.w.Peers {
		before[pi] = m.snapshot(pi)
	}
	kind := rapid.SampledFrom([]string{"discovery-reply", "discovery-reply", "discovery-notify", "usecase-reply", "result"}).Draw(t, "kind")
	var d model.DatagramType
	switch kind {
	case "discovery-reply":
		cmd := model.CmdType{NodeManagementDetailedDiscoveryData: m.discovery(p.Idx, p.DiscoveryData(world.WithDeviceInfo(regs.PeerEntities()), nil))}
		d = p.Msg(model.CmdClassifierTypeReply, p.NM(), world.LocalNM(), false, p.DiscoveryRef, cmd)
	case "discovery-notify":
		added := model.NetworkManagementStateChangeTypeAdded
		ent := world.EntSpec{Addr: []uint{5}, Type: model.EntityTypeTypeEV, Feats: []world.FeatSpec{{ID: 1, Type: model.FeatureTypeTypeMeasurement, Role: model.RoleTypeClient}}}
		cmd := model.CmdType{Function: ptr(model.FunctionTypeNodeManagementDetailedDiscoveryData), Filter: []model.FilterType{*model.NewFilterTypePartial()},
			NodeManagementDetailedDiscoveryData: m.discovery(p.Idx, p.DiscoveryData([]world.EntSpec{ent}, &added))}
		d = p.Msg(model.CmdClassifierTypeNotify, p.NM(), world.LocalNM(), false, nil, cmd)
	case "usecase-reply":
		cmd := model.CmdType{NodeManagementUseCaseData: &model.NodeManagementUseCaseDataType{}}
		d = p.Msg(model.CmdClassifierTypeReply, p.NM(), world.LocalNM(), false, p.DiscoveryRef, cmd)
	case "result":
		cmd := model.CmdType{ResultData: &model.ResultDataType{ErrorNumber: ptr(model.ErrorNumberType(0))}}
		d = p.Msg(model.CmdClassifierTypeResult, p.NM(), world.LocalNM(), false, p.DiscoveryRef, cmd)
	}
	p.Send(d)
	m.w.Sync()
	m.w.Events.Drain()
	m.logf("late %s of removed peer%d handed to its reader (other peers connected: %v)", kind, p.Idx+1, alive)
	m.ops = append(m.ops, "late-"+kind)
	m.late++
	if alive {
		m.lateWithOthers = true
	}
	m.checkWatches(t, "a late "+kind+" of the removed peer")
	reconnected := m.w.Peers[p.Idx] != p
	if reconnected {
		m.lateAfterReconnect = true
	}
	if !reconnected && m.w.Local.RemoteDeviceForSki(p.Ski) != nil {
		world.Fail(t, "C10/removed-device-state-left/still-resolvable", "after a late %s the removed peer%d can be resolved by SKI again%s", kind, p.Idx+1, m.history())
	}
	for pi, q := range m.w.Peers {
		if q.Gone {
			continue
		}
		if after := m.snapshot(pi); !reflect.DeepEqual(before[pi], after) {
			world.Fail(t, "C10/other-peer-lost-state/late-message/registry", "a late %s of removed peer%d changed the state of peer%d\n before: %+v\n after:  %+v%s", kind, p.Idx+1, pi+1, before[pi], after, m.history())
		}
	}
}

// announceLate: a peer that was connected only sends its discovery reply now (what it subscribed
// or bound before stays what it is).
func (m *machine) announceLate(t *rapid.T) {
	var silent []int
	for i, p := range m.w.Peers {
		if !p.Gone && p.Ents == nil {
			silent = append(silent, i)
		}
	}
	if len(silent) == 0 {
		t.Skip("every connected peer has announced itself")
	}
	pi := silent[rapid.IntRange(0, len(silent)-1).Draw(t, "peer")]
	before := map[int]snap{}
	for i := range m.w.Peers {
		before[i] = m.snapshot(i)
	}
	p := m.w.Peers[pi]
	// now and then without the (optional) device address
	if rapid.IntRange(0, 3).Draw(t, "withoutDeviceAddress") == 0 {
		announceWithoutAddress(p, regs.PeerEntities())
		m.noAddr[pi] = true
		world.Label("op/announce-late/without-device-address")
	} else {
		p.Announce(regs.PeerEntities())
	}
	m.tree[pi] = fullTree()
	if rapid.Bool().Draw(t, "answersCoreRequests") {
		p.AnswerCoreRequests()
		p.Cap.Drain()
	}
	m.w.Events.Drain()
	m.logf("peer%d announces itself (had %+v)", pi+1, before[pi])
	m.ops = append(m.ops, "announce-late")
	world.Label("op/announce-late")
	for i := range m.w.Peers {
		if m.w.Peers[i].Gone {
			continue
		}
		after := m.snapshot(i)
		if !reflect.DeepEqual(nz(before[i].Subs), nz(after.Subs)) || !reflect.DeepEqual(nz(before[i].Binds), nz(after.Binds)) {
			world.Fail(t, "C10/other-peer-lost-state/late-announcement/registry", "the late announcement of peer%d changed the registry entries of peer%d\n before: %+v\n after:  %+v%s", pi+1, i+1, before[i], after, m.history())
		}
	}
}

// reconnect: the device of a removed connection connects again (same SKI and address, a new
// connection) and announces itself. The old connection stays removed and watched.
func (m *machine) reconnect(t *rapid.T) {
	var gone []int
	for i, p := range m.w.Peers {
		if p.Gone && p.Ents != nil {
			gone = append(gone, i)
		}
	}
	if len(gone) == 0 {
		t.Skip("no removed connection")
	}
	pi := gone[rapid.IntRange(0, len(gone)-1).Draw(t, "peer")]
	old := m.w.Peers[pi]
	var p *world.Peer
	if m.noAddr[pi] {
		p = m.w.ReconnectOnly(old)
		announceWithoutAddress(p, regs.PeerEntities())
	} else {
		p = m.w.Reconnect(old, regs.PeerEntities())
	}
	m.had[pi] = nil
	if rapid.Bool().Draw(t, "answersCoreRequests") {
		p.AnswerCoreRequests()
		p.Cap.Drain()
	}
	m.tree[pi] = fullTree()
	m.pending[pi] = 0
	m.w.Events.Drain()
	m.reconnects++
	m.logf("peer%d connects again on a new connection and announces itself", pi+1)
	m.ops = append(m.ops, "reconnect")
	m.checkWatches(t, "the reconnect of the device")
}

func (m *machine) entityRemoved(t *rapid.T) {
	victim := m.live(t, "victim")
	if !m.has(victim, []uint{2}) {
		t.Skip("already removed / not announced")
	}
	p := m.w.Peers[victim]
	before := map[int]snap{}
	for pi := range m.w.Peers {
		before[pi] = m.snapshot(pi)
	}
	if m.sharedState(victim) {
		m.shared = true
	}
	m.w.Events.Drain()
	removed := model.NetworkManagementStateChangeTypeRemoved
	e := regs.PeerEntities()[1]
	e.Feats = nil
	cmd := model.CmdType{Function: ptr(model.FunctionTypeNodeManagementDetailedDiscoveryData), Filter: []model.FilterType{*model.NewFilterTypePartial()},
		NodeManagementDetailedDiscoveryData: m.discovery(victim, p.DiscoveryData([]world.EntSpec{e}, &removed))}
	// field devices leave the device part of the entity address out (it is named in deviceInformation)
	omitDevice := rapid.Bool().Draw(t, "entityAddressWithoutDevice")
	if omitDevice {
		for i := range cmd.NodeManagementDetailedDiscoveryData.EntityInformation {
			if d := cmd.NodeManagementDetailedDiscoveryData.EntityInformation[i].Description; d != nil && d.EntityAddress != nil {
				d.EntityAddress.Device = nil
			}
		}
		world.Label("entity-removed/address-without-device")
	}
	p.Send(p.Msg(model.CmdClassifierTypeNotify, p.NM(), world.LocalNM(), false, nil, cmd))
	m.w.Sync()
	p.Cap.Drain()
	delete(m.tree[victim], "[2]")
	m.syncEnts(victim)
	m.removals++
	m.logf("peer%d announces entity [2] removed (had %+v)", victim+1, before[victim])
	m.ops = append(m.ops, "entity-removed")
	m.checkCascade(t, victim, before, []string{"[2]"}, "", "entity-removal")
}

// checkCascade: after a discovery notification of the victim by which the entities gone (keys)
// disappeared, all and only the victim's registry entries and the client-side bookkeeping that refer
// to these entities are gone, one remove event was published per entry and per entity (none for
// other devices), and every other peer is untouched and served. shape "" is the notification with
// the single entry "entity [2] removed".
func (m *machine) checkCascade(t *rapid.T, victim int, before map[int]snap, gone []string, shape, what string) {
	p := m.w.Peers[victim]
	suffix, msg := "", fmt.Sprintf("entity [2] of peer%d was removed", victim+1)
	if shape != "" {
		suffix, msg = "/"+shape, fmt.Sprintf("the %s of peer%d by which its entities %v disappeared", shape, victim+1, gone)
	}
	if m.orphans(before[victim], gone) > 0 {
		m.orphanTeardowns++
		world.Label("teardown/entity/entries-on-removed-local-entity")
	}
	after := m.snapshot(victim)
	keep := func(l []string, clientSide bool) []string {
		var out []string
		for _, x := range l {
			refers := false
			for _, g := range gone {
				if clientSide {
					refers = refers || inEntity(x, g)
				} else {
					refers = refers || strings.Contains(x, ":"+g+"/")
				}
			}
			if !refers {
				out = append(out, x)
			}
		}
		return out
	}
	want := snap{Subs: keep(before[victim].Subs, true), Binds: keep(before[victim].Binds, true), Book: keep(before[victim].Book, false), Resolved: true}
	if !reflect.DeepEqual(nz(want.Subs), nz(after.Subs)) || !reflect.DeepEqual(nz(want.Binds), nz(after.Binds)) || !reflect.DeepEqual(nz(want.Book), nz(after.Book)) || !after.Resolved {
		world.Fail(t, "C10/entity-removal-cascade"+suffix, "after %s its state is %+v, expected %+v%s", msg, after, want, m.history())
	}
	subs, binds, _, ents, foreign := m.countRemoveEvents(m.w.Events.Drain(), p.Ski)
	if subs != len(before[victim].Subs)-len(want.Subs) || binds != len(before[victim].Binds)-len(want.Binds) || ents != len(gone) || foreign != 0 {
		world.Fail(t, "C10/remove-events/entity"+suffix, "entity removal published %d subscription, %d binding, %d entity remove events, %d for other devices; expected %d, %d, %d, 0%s", subs, binds, ents, foreign, len(before[victim].Subs)-len(want.Subs), len(before[victim].Binds)-len(want.Binds), len(gone), m.history())
	}
	m.othersUntouchedAndServed(t, victim, before, what)
}

// ---- discovery notifications with several entries

// entEntry is one entityInformation element; change is nil in complete announcements.
type entEntry struct {
	spec   world.EntSpec
	change *model.NetworkManagementStateChangeType
}

// discoveryData renders the entries; the features of an entity are listed with the entries that
// announce it as present. Field devices leave the device part of entity and feature addresses out.
func discoveryData(p *world.Peer, entries []entEntry, omitDevice bool) *model.NodeManagementDetailedDiscoveryDataType {
	data := p.DiscoveryData(nil, nil)
	addr := p.Addr
	dev := &addr
	if omitDevice {
		dev = nil
	}
	for _, en := range entries {
		data.EntityInformation = append(data.EntityInformation, world.EntityInfo(dev, en.spec, en.change))
		if en.change != nil && *en.change == model.NetworkManagementStateChangeTypeRemoved {
			continue
		}
		for _, f := range en.spec.Feats {
			data.FeatureInformation = append(data.FeatureInformation, world.FeatureInfo(dev, en.spec, f))
		}
	}
	return data
}

// entityNotification: the common part of the two operations below.
func (m *machine) entityNotification(t *rapid.T, victim int, entries []entEntry, descr []string, gone []string, partial bool, shape string) {
	p := m.w.Peers[victim]
	before := map[int]snap{}
	for pi := range m.w.Peers {
		before[pi] = m.snapshot(pi)
	}
	if len(gone) > 0 && m.sharedState(victim) {
		m.shared = true
	}
	m.w.Events.Drain()
	omitDevice := rapid.Bool().Draw(t, "addressesWithoutDevice")
	cmd := model.CmdType{NodeManagementDetailedDiscoveryData: m.discovery(victim, discoveryData(p, entries, omitDevice))}
	if partial {
		cmd.Function = ptr(model.FunctionTypeNodeManagementDetailedDiscoveryData)
		cmd.Filter = []model.FilterType{*model.NewFilterTypePartial()}
	}
	p.Send(p.Msg(model.CmdClassifierTypeNotify, p.NM(), world.LocalNM(), false, nil, cmd))
	m.w.Sync()
	p.Cap.Drain()
	m.syncEnts(victim)
	if len(gone) > 0 {
		m.removals++
	}
	holding := 0
	for _, g := range gone {
		for _, x := range append(append(append([]string{}, before[victim].Subs...), before[victim].Binds...), before[victim].Book...) {
			if inEntity(x, g) || strings.Contains(x, ":"+g+"/") {
				holding++
			}
		}
	}
	if holding > 0 {
		world.Label("entity-notify/" + shape + "/removed-entity-held-state")
	}
	m.logf("peer%d sends a %s (addresses without device: %v): %s => entities that disappear: %v (had %+v)", victim+1, shape, omitDevice, strings.Join(descr, ", "), gone, before[victim])
	m.ops = append(m.ops, shape+":"+strings.Join(descr, ","))
	m.checkCascade(t, victim, before, gone, shape, "entity-notification")
}

// entitiesNotified: a partial notification with 1-3 entries for different entities, in any order:
// known entities announced as removed, entities the stack does not know (never announced or
// removed before) announced as removed, and now and then an absent entity announced as added.
func (m *machine) entitiesNotified(t *rapid.T) {
	victim := m.live(t, "victim")
	if m.tree[victim] == nil {
		t.Skip("not announced")
	}
	tr := m.tree[victim]
	// entity [1] carries most of the state of a history: it goes less often than the others
	dom := entDomain()
	cands := []int{0}
	for i := 1; i < len(dom); i++ {
		cands = append(cands, i, i)
	}
	n := rapid.IntRange(1, 3).Draw(t, "entries")
	var entries []entEntry
	var descr, gone []string
	listed := map[string]bool{}
	unknownListed, unknownBeforeKnown, known := false, false, 0
	for i := 0; i < n; i++ {
		e := dom[cands[rapid.IntRange(0, len(cands)-1).Draw(t, fmt.Sprintf("e%d.entity", i))]]
		k := entKey(e.Addr)
		if listed[k] {
			continue // an entity is listed once per notification
		}
		listed[k] = true
		switch {
		case tr[k]:
			entries = append(entries, entEntry{e, ptr(model.NetworkManagementStateChangeTypeRemoved)})
			descr = append(descr, "removed "+k)
			gone = append(gone, k)
			delete(tr, k)
			known++
			if unknownListed {
				unknownBeforeKnown = true
			}
		case rapid.IntRange(0, 3).Draw(t, fmt.Sprintf("e%d.addedNotRemovedUnknown", i)) == 0:
			entries = append(entries, entEntry{e, ptr(model.NetworkManagementStateChangeTypeAdded)})
			descr = append(descr, "added "+k)
			tr[k] = true
		default:
			entries = append(entries, entEntry{e, ptr(model.NetworkManagementStateChangeTypeRemoved)})
			descr = append(descr, "removed "+k+" (not known)")
			unknownListed = true
		}
	}
	world.Label("op/entity-notify/partial")
	if known >= 2 {
		world.Label("entity-notify/partial/several-known-removed")
	}
	if unknownBeforeKnown {
		world.Label("entity-notify/partial/unknown-removed-before-known")
	}
	m.entityNotification(t, victim, entries, descr, gone, true, "partial-notification-with-several-entries")
}

// fullNotification: a complete (filter-less) notification: entity [0], a subset of the entities the
// peer has (those left out are thereby announced as removed) and possibly entities it did not have.
func (m *machine) fullNotification(t *rapid.T) {
	victim := m.live(t, "victim")
	if m.tree[victim] == nil {
		t.Skip("not announced")
	}
	tr := m.tree[victim]
	entries := []entEntry{{world.WithDeviceInfo(nil)[0], nil}}
	descr := []string{"[0]"}
	var gone []string
	added := 0
	for i, e := range entDomain() {
		k := entKey(e.Addr)
		if tr[k] {
			drop := 4
			if i == 0 {
				drop = 8 // entity [1] goes less often, see above
			}
			if rapid.IntRange(0, drop-1).Draw(t, "drop"+k) != 0 {
				entries = append(entries, entEntry{e, nil})
				descr = append(descr, k)
			} else {
				gone = append(gone, k)
				delete(tr, k)
			}
		} else if rapid.IntRange(0, 2).Draw(t, "add"+k) == 0 {
			entries = append(entries, entEntry{e, nil})
			descr = append(descr, k+" (new)")
			tr[k] = true
			added++
		}
	}
	world.Label("op/entity-notify/full")
	if len(gone) > 0 && added > 0 {
		world.Label("entity-notify/full/entities-replaced")
	}
	if len(gone) > 0 && added >= len(gone) {
		world.Label("entity-notify/full/at-least-as-many-new-as-dropped")
	}
	m.entityNotification(t, victim, entries, descr, gone, false, "full-notification")
}

// entityReannounced: the peer announces its entity [2] again while it is known (a repeated
// "added" entry with the unchanged feature set). Nothing may change; the stack re-creates the
// feature objects, and later removals must still find the entries that refer to them.
func (m *machine) entityReannounced(t *rapid.T) {
	pi := m.live(t, "peer")
	if m.removedInitial(pi, []uint{2}) {
		t.Skip("entity removed")
	}
	p := m.w.Peers[pi]
	before := map[int]snap{}
	for i := range m.w.Peers {
		before[i] = m.snapshot(i)
	}
	added := model.NetworkManagementStateChangeTypeAdded
	ent := regs.PeerEntities()[1]
	// ... unchanged, or without one of its client features (what becomes of the registry entries of
	// a feature that is not announced any more is the code's choice - but they still are entries of
	// that device and go with it)
	reduced := rapid.IntRange(0, 2).Draw(t, "withoutOneFeature") == 0
	if reduced {
		drop := rapid.IntRange(0, 1).Draw(t, "droppedFeature")
		ent.Feats = append(append([]world.FeatSpec{}, ent.Feats[:drop]...), ent.Feats[drop+1:]...)
		world.Label("entity-reannounced/without-one-feature")
	}
	cmd := model.CmdType{Function: ptr(model.FunctionTypeNodeManagementDetailedDiscoveryData), Filter: []model.FilterType{*model.NewFilterTypePartial()},
		NodeManagementDetailedDiscoveryData: m.discovery(pi, p.DiscoveryData([]world.EntSpec{ent}, &added))}
	p.Send(p.Msg(model.CmdClassifierTypeNotify, p.NM(), world.LocalNM(), false, nil, cmd))
	m.w.Sync()
	p.Cap.Drain()
	m.w.Events.Drain()
	m.logf("peer%d announces entity [2] again (without one feature: %v)", pi+1, reduced)
	m.ops = append(m.ops, fmt.Sprintf("entity-reannounced:%v", reduced))
	for i := range m.w.Peers {
		if reduced && i == pi {
			continue
		}
		if after := m.snapshot(i); !reflect.DeepEqual(before[i], after) {
			world.Fail(t, "C10/reannouncement-changed-state", "re-announcing an unchanged entity of peer%d changed the state of peer%d\n before: %+v\n after:  %+v%s", pi+1, i+1, before[i], after, m.history())
		}
	}
}

func nz(l []string) []string {
	if l == nil {
		return []string{}
	}
	return l
}

func ptr[T any](v T) *T { return &v }

func TestTeardown(t *testing.T) {
	rapid.Check(t, world.Prop(func(t *rapid.T) {
		// sometimes one or two of the three peers have not announced themselves yet (all they can hold
		// are node management subscriptions / bindings, under an address without device part)
		silent := rapid.SampledFrom([]int{0, 0, 0, 1, 2}).Draw(t, "unannouncedPeers")
		world.Label(fmt.Sprintf("unannouncedPeers/%d", silent))
		// ... and sometimes one peer announces itself without telling its device address (the element is
		// optional): the stack knows it by SKI only
		addressless := 0
		if silent < 2 {
			addressless = rapid.SampledFrom([]int{0, 0, 1}).Draw(t, "peersWithoutDeviceAddress")
		}
		world.Label(fmt.Sprintf("peersWithoutDeviceAddress/%d", addressless))
		m := &machine{w: regs.NewWithUnannounced(3, silent+addressless), pending: map[int]int{}, tree: map[int]map[string]bool{}, localGone: map[string]bool{},
			had: map[int]map[string]bool{}, noAddr: map[int]bool{}}
		defer m.w.Teardown()
		for i := 3 - silent - addressless; i < 3-silent; i++ {
			announceWithoutAddress(m.w.Peers[i], regs.PeerEntities())
			m.noAddr[i] = true
		}
		for i, p := range m.w.Peers {
			if p.Ents != nil {
				m.tree[i] = fullTree()
			}
		}
		// most peers answer what the stack asked them after their announcement
		for i, p := range m.w.Peers {
			if rapid.IntRange(0, 3).Draw(t, fmt.Sprintf("peer%d.answersCoreRequests", i+1)) != 0 {
				p.AnswerCoreRequests()
				p.Cap.Drain()
			}
		}
		// the LoadControl server asks the application, which never answers
		srv := m.w.Servers[1].F
		srv.SetWriteApprovalTimeout(approvalTimeout)
		_ = srv.AddWriteApprovalCallback(func(msg *api.Message) {
			m.mu.Lock()
			m.withheld = append(m.withheld, msg)
			m.mu.Unlock()
		})
		t.Repeat(map[string]func(*rapid.T){
			"subscribe":         m.subscribe,
			"subscribe2":        m.subscribe,
			"bind":              m.bind,
			"bind2":             m.bind,
			"localClient":       m.localClientOp,
			"pendingWrite":      m.pendingWrite,
			"dataChange":        m.dataChange,
			"disconnect":        m.disconnect,
			"entityRemoved":     m.entityRemoved,
			"entitiesNotified":  m.entitiesNotified,
			"fullNotification":  m.fullNotification,
			"localEntityGone":   m.localEntityRemoved,
			"entityReannounced": m.entityReannounced,
			"lateResponse":      m.lateResponse,
			"reconnect":         m.reconnect,
			"announceLate":      m.announceLate,
		})
		// let every approval timer expire, then change data once more: the removed connections
		// must have stayed silent
		anyPending := false
		for _, wt := range m.watches {
			if m.pending[wt.peer.Idx] > 0 {
				anyPending = true
			}
		}
		if anyPending {
			time.Sleep(approvalTimeout + 25*time.Millisecond)
		}
		// pending approvals of live peers time out as well; wait for them so no timer outlives the case
		for pi, n := range m.pending {
			if n > 0 && !m.w.Peers[pi].Gone && !anyPending {
				time.Sleep(approvalTimeout + 25*time.Millisecond)
				break
			}
		}
		m.w.Sync()
		for si := range m.w.Servers {
			if m.localServerGone(si) {
				continue
			}
			f := gen.ByFunction(m.w.Servers[si].Writable)
			m.w.Servers[si].F.SetData(f.Fn, refmodel.Payload(f, nil))
		}
		m.w.Sync()
		m.checkWatches(t, "the approval time-out and further data changes")
		nt := m.shared && m.removals > 0
		labels := []string{fmt.Sprintf("removals/%d", m.removals)}
		if m.late > 0 {
			labels = append(labels, "late-message-of-removed-peer")
		}
		if m.reconnects > 0 {
			labels = append(labels, "reconnect")
		}
		if m.lateAfterReconnect {
			labels = append(labels, "late-message-after-reconnect")
		}
		if m.lateWithOthers {
			labels = append(labels, "late-message-while-others-connected")
		}
		if m.orphanTeardowns > 0 {
			labels = append(labels, "teardown-with-entries-on-removed-local-entity")
		}
		world.Record(world.Hash(m.ops), nt, labels...)
		if nt && world.WantSample() {
			world.Sample(map[string]any{"history": m.hist})
		}
	}))
}

// TestTeardownStress: real goroutines. While one connection is removed (its peer holds several
// subscriptions and bindings, so the removal takes a while and publishes events), other peers
// subscribe and bind on their own connections. Every call that was answered with success must be
// in the registry afterwards, nothing of the removed peer may be left, and nothing else may be lost.
func TestTeardownStress(t *testing.T) {
	rounds := world.EnvInt("VERIF_ROUNDS", 150)
	world.Guard(func() {
		for r := 0; r < rounds; r++ {
			w := regs.New(3)
			victim, a, b := w.Peers[0], w.Peers[1], w.Peers[2]
			// the victim holds state on every server feature it can
			for si, srv := range w.Servers {
				for _, c := range regs.ClientRefs[:6] {
					victim.CallOK(world.SubscribeCall(victim.FA(c.Ent, c.Feat), srv.F.Address(), srv.Type))
				}
				_ = si
			}
			b.CallOK(world.SubscribeCall(b.FA([]uint{1}, 1), w.Servers[0].F.Address(), w.Servers[0].Type)) // must survive
			type call struct {
				p       *world.Peer
				d       model.DatagramType
				key     string
				binding bool
			}
			var calls []call
			for _, c := range []regs.Ref{{Ent: []uint{1}, Feat: 1}, {Ent: []uint{2}, Feat: 1}, {Ent: []uint{1}, Feat: 2}, {Ent: []uint{1}, Feat: 5}, {Ent: []uint{2}, Feat: 2}, {Ent: []uint{1}, Feat: 3}} {
				for si, srv := range w.Servers {
					ok := false
					for _, e := range regs.PeerEntities() {
						for _, f := range e.Feats {
							if reflect.DeepEqual(e.Addr, c.Ent) && f.ID == c.Feat && f.Type == srv.Type {
								ok = true
							}
						}
					}
					if !ok {
						continue
					}
					d := a.Msg(model.CmdClassifierTypeCall, a.NM(), world.LocalNM(), true, nil, world.SubscribeCall(a.FA(c.Ent, c.Feat), srv.F.Address(), srv.Type))
					calls = append(calls, call{a, d, fmt.Sprintf("%s->%s", c, regs.ServerRefs[si]), false})
				}
			}
			start := make(chan struct{})
			var wg sync.WaitGroup
			wg.Add(2)
			go func() {
				defer wg.Done()
				<-start
				w.Local.RemoveRemoteDeviceConnection(victim.Ski)
			}()
			go func() {
				defer wg.Done()
				<-start
				for _, c := range calls {
					c.p.Send(c.d)
				}
			}()
			close(start)
			world.WaitOrDiagnose(t, &wg, "C10/concurrent", fmt.Sprintf("teardown against subscription calls (round %d)", r))
			victim.Gone = true
			w.Sync()
			granted := map[string]bool{}
			for _, s := range a.Cap.Drain() {
				for _, c := range calls {
					if s.Ref() != nil && *s.Ref() == *c.d.Header.MsgCounter && s.ErrorNumber() == 0 {
						granted[c.key] = true
					}
				}
			}
			have := map[string]bool{}
			for _, e := range w.Local.SubscriptionManager().Subscriptions(a.Dev) {
				have[fmt.Sprintf("%s->%s", refOf(e.ClientFeature.Address()), refOf(e.ServerFeature.Address()))] = true
			}
			world.Record(world.Hash("stress", r), true, "stress/teardown-vs-subscribe")
			for k := range granted {
				if !have[k] {
					world.Fail(t, "C10/concurrent/granted-subscription-lost", "round %d: peer2's subscription %s was answered with success while peer1 was being removed, but it is not in the registry afterwards (registry of peer2: %v)", r, k, have)
				}
			}
			if n := len(w.Local.SubscriptionManager().Subscriptions(victim.Dev)); n != 0 {
				world.Fail(t, "C10/concurrent/removed-device-state-left", "round %d: %d subscriptions of the removed peer are left", r, n)
			}
			if n := len(w.Local.SubscriptionManager().Subscriptions(b.Dev)); n != 1 {
				world.Fail(t, "C10/concurrent/other-peer-lost-state", "round %d: the uninvolved peer3 has %d subscriptions, expected 1", r, n)
			}
			w.Teardown()
		}
	})
}
