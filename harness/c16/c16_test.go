// Package c16: heartbeat - monotone, periodic and stoppable.
//
// Three checks (DESIGN §4 C16):
//   - TestHeartbeatHistories (rapid, real time): drawn histories of AddFunctionType(heartbeat),
//     Start, Stop, IsHeartbeatRunning, wait-k-periods and RemoveEntity on an entity with a drawn
//     heartbeat time-out and 1-2 subscribed peers; the invariant is evaluated over everything that
//     was observed (notifies on the subscribers' writers plus sampled DataCopy).
//   - TestHeartbeatInterleavings (sched_test.go, build tag verif): all interleavings of concurrent
//     Start / Stop calls over the two yield points.
//   - TestHeartbeatHammer: free-running goroutines hammering Start / Stop / IsHeartbeatRunning.
package c16

import (
	"encoding/json"
	"fmt"
	"runtime"
	"sort"
	"strings"
	"sync"
	"testing"
	"time"

	"github.com/enbility/spine-go/api"
	"github.com/enbility/spine-go/model"
	"github.com/enbility/spine-go/spine"
	"pgregory.net/rapid"

	"verifharness/world"
)

// VERIF_TZ_OFFSET_MIN moves the process's local time zone away from UTC (before anything runs): a
// heartbeat's timestamp is the current time wherever the process lives.
func TestMain(m *testing.M) {
	if off := world.EnvInt("VERIF_TZ_OFFSET_MIN", 0); off != 0 {
		time.Local = time.FixedZone(fmt.Sprintf("verif%+d", off), off*60)
	}
	world.Main(m)
}

const fnHeartbeat = model.FunctionTypeDeviceDiagnosisHeartbeatData

// tolerances of the oracle (DESIGN §4 C16 "O", calibration in Appendix A.6)
const (
	gapFactorNum, gapFactorDen = 3, 2                  // mean gap <= timeout * 1.5 ...
	gapSlack                   = 50 * time.Millisecond // ... + 50 ms
	singleGapExtra             = 50 * time.Millisecond // a single (not averaged) gap gets this on top
	countSlack                 = 2                     // refreshes in a window <= window/period + 2
	timestampTolerance         = 2 * time.Second
	silencePeriods             = 3 // after stop / removal: nothing for this many periods
	sampleEvery                = 10 * time.Millisecond
	// a case in which the sampling goroutine of the harness overslept its 10 ms by more than this
	// was descheduled grossly: it is discarded and counted, not judged
	descheduleLimit = 50 * time.Millisecond
)

func maxGap(timeout time.Duration) time.Duration {
	return timeout*gapFactorNum/gapFactorDen + gapSlack
}

// periodOf is the refresh period belonging to an announced time-out: the time-out itself, resp.
// shortened by 2 s above 2 s.
func periodOf(timeout time.Duration) time.Duration {
	if timeout > 2*time.Second {
		return timeout - 2*time.Second
	}
	return timeout
}

// ---------------------------------------------------------------------------------------------
// observation

// seen is one observation of the heartbeat data: a notify on connection Conn (>= 0) or a DataCopy
// sample (Conn == -1).
type seen struct {
	Conn    int
	Counter uint64
	HasCtr  bool
	TS      time.Time
	TSok    bool
	Timeout time.Duration
	TOok    bool
	At      time.Time
	Text    string // canonical JSON of the data (samples only)
}

type observer struct {
	sampleMu sync.Mutex
	mu       sync.Mutex
	notifs   [][]seen // per connection, in write order
	samples  []seen   // DataCopy samples, only changes are stored
	lastText string
	wake     chan struct{}
	maxOver  time.Duration // worst oversleep of the sampler (self-check)
	stop     chan struct{}
	done     chan struct{}
}

func decodeData(d *model.DeviceDiagnosisHeartbeatDataType, s *seen) {
	if d == nil {
		return
	}
	if d.HeartbeatCounter != nil {
		s.Counter, s.HasCtr = *d.HeartbeatCounter, true
	}
	if d.Timestamp != nil && !d.Timestamp.IsRelativeTime() {
		if ts, err := d.Timestamp.GetTime(); err == nil {
			s.TS, s.TSok = ts, true
		}
	}
	if d.HeartbeatTimeout != nil {
		if to, err := d.HeartbeatTimeout.GetTimeDuration(); err == nil {
			s.Timeout, s.TOok = to, true
		}
	}
}

// onWrite runs on the goroutine that writes to the peer's connection.
func (o *observer) onWrite(conn int, raw []byte) {
	at := time.Now()
	var d model.Datagram
	if json.Unmarshal(raw, &d) != nil {
		return
	}
	h := d.Datagram.Header
	if h.CmdClassifier == nil || *h.CmdClassifier != model.CmdClassifierTypeNotify || len(d.Datagram.Payload.Cmd) == 0 {
		return
	}
	data := d.Datagram.Payload.Cmd[0].DeviceDiagnosisHeartbeatData
	if data == nil {
		return
	}
	s := seen{Conn: conn, At: at}
	decodeData(data, &s)
	o.mu.Lock()
	o.notifs[conn] = append(o.notifs[conn], s)
	o.mu.Unlock()
	select {
	case o.wake <- struct{}{}:
	default:
	}
}

func (o *observer) sample(f api.FeatureLocalInterface) seen {
	// two goroutines sample (the 10 ms sampler and the history runner): read and append must be
	// one critical section, otherwise an older read can be appended after a newer one and look
	// like a decreasing counter
	o.sampleMu.Lock()
	defer o.sampleMu.Unlock()
	v := f.DataCopy(fnHeartbeat)
	s := seen{Conn: -1, At: time.Now(), Text: "null"}
	if d, ok := v.(*model.DeviceDiagnosisHeartbeatDataType); ok && d != nil {
		decodeData(d, &s)
		s.Text = world.JSON(d)
	}
	o.mu.Lock()
	if s.Text != o.lastText {
		o.samples = append(o.samples, s)
		o.lastText = s.Text
	}
	o.mu.Unlock()
	return s
}

func (o *observer) runSampler(f api.FeatureLocalInterface) {
	defer close(o.done)
	for {
		t0 := time.Now()
		select {
		case <-o.stop:
			return
		case <-time.After(sampleEvery):
		}
		if over := time.Since(t0) - sampleEvery; over > 0 {
			o.mu.Lock()
			if over > o.maxOver {
				o.maxOver = over
			}
			o.mu.Unlock()
		}
		o.sample(f)
	}
}

func (o *observer) count(conn int) int {
	o.mu.Lock()
	defer o.mu.Unlock()
	return len(o.notifs[conn])
}

// refresh is one distinct counter value with the first moment anything showed it.
type refresh struct {
	Counter uint64
	At      time.Time
}

// refreshes lists the distinct counters observed by any means, in counter order.
func (o *observer) refreshes() []refresh {
	o.mu.Lock()
	defer o.mu.Unlock()
	first := map[uint64]time.Time{}
	add := func(s seen) {
		if !s.HasCtr {
			return
		}
		if at, ok := first[s.Counter]; !ok || s.At.Before(at) {
			first[s.Counter] = s.At
		}
	}
	for _, l := range o.notifs {
		for _, s := range l {
			add(s)
		}
	}
	for _, s := range o.samples {
		add(s)
	}
	out := make([]refresh, 0, len(first))
	for c, at := range first {
		out = append(out, refresh{c, at})
	}
	sort.Slice(out, func(i, j int) bool { return out[i].Counter < out[j].Counter })
	return out
}

// ---------------------------------------------------------------------------------------------
// fixture

type fixture struct {
	w       *world.World
	ent     *spine.EntityLocal
	feat    api.FeatureLocalInterface
	hm      api.HeartbeatManagerInterface
	peers   []*world.Peer
	obs     *observer
	timeout time.Duration
	period  time.Duration
	base    int  // goroutines before the fixture existed
	leaked  bool // an oracle saw a stream that cannot be stopped: do not wait for it
}

func peerTree() []world.EntSpec {
	return []world.EntSpec{{Addr: []uint{1}, Type: model.EntityTypeTypeCEM, Feats: []world.FeatSpec{
		{ID: 1, Type: model.FeatureTypeTypeDeviceDiagnosis, Role: model.RoleTypeClient},
	}}}
}

// newFixture builds a local entity [1] with a DeviceDiagnosis server feature and npeers peers
// whose DeviceDiagnosis client feature subscribed to it. With lateAdd the heartbeat function is
// not added yet (fx.addFunction does it), otherwise the heartbeat is already running on return.
func newFixture(t world.TB, timeout time.Duration, npeers int, lateAdd bool, sampler bool) *fixture {
	fx := &fixture{base: runtime.NumGoroutine(), w: world.New(), timeout: timeout, period: periodOf(timeout)}
	fx.ent = fx.w.AddLocalEntity([]uint{1}, model.EntityTypeTypeCEM, timeout)
	spec := world.FeatSpec{Type: model.FeatureTypeTypeDeviceDiagnosis, Role: model.RoleTypeServer}
	if !lateAdd {
		spec.Funcs = []world.FuncSpec{{Fn: fnHeartbeat, Read: true}}
	}
	// adding the heartbeat function starts the heartbeat
	if p := guarded(func() { fx.feat = fx.w.AddLocalFeature(fx.ent, spec) }); p != "" {
		world.Fail(t, "C16/sequential/"+panicShape(p)+"/add", "AddFunctionType(deviceDiagnosisHeartbeatData) on a fresh DeviceDiagnosis server feature panicked: %s", p)
	}
	fx.hm = fx.ent.HeartbeatManager()
	fx.obs = &observer{notifs: make([][]seen, npeers), wake: make(chan struct{}, 1), stop: make(chan struct{}), done: make(chan struct{})}
	for i := 0; i < npeers; i++ {
		i := i
		p := fx.w.AddPeer(fmt.Sprintf("ski-%d", i+1), fmt.Sprintf("d:_r:peer%d", i+1), peerTree())
		p.Cap.SetOnWrite(func(raw []byte) { fx.obs.onWrite(i, raw) })
		if !p.CallOK(world.SubscribeCall(p.FA([]uint{1}, 1), fx.feat.Address(), model.FeatureTypeTypeDeviceDiagnosis)) {
			panic("harness: subscription to the device diagnosis feature was not granted")
		}
		fx.peers = append(fx.peers, p)
	}
	fx.obs.sample(fx.feat) // what the data shows before the observation starts
	if sampler {
		go fx.obs.runSampler(fx.feat)
	} else {
		close(fx.obs.done)
	}
	return fx
}

func (fx *fixture) addFunction() { fx.feat.AddFunctionType(fnHeartbeat, true, false) }

// close stops the sampler and the heartbeat and lets the world go.
func (fx *fixture) close() {
	select {
	case <-fx.obs.stop:
	default:
		close(fx.obs.stop)
	}
	<-fx.obs.done
	func() {
		defer func() { _ = recover() }()
		fx.hm.StopHeartbeat()
	}()
	for _, p := range fx.peers {
		p.Cap.SetOnWrite(nil)
	}
	// like World.Teardown, but a stream that cannot be stopped (which the oracles report) must not
	// cost seconds per case
	if !fx.leaked {
		world.WaitGoroutines(fx.base, 250*time.Millisecond)
	}
}

// guarded runs one call of the stack and returns the recovered panic text ("" if none).
func guarded(fn func()) (panicked string) {
	defer func() {
		if r := recover(); r != nil {
			panicked = fmt.Sprint(r)
		}
	}()
	fn()
	return ""
}

func panicShape(text string) string {
	switch {
	case strings.Contains(text, "close of closed channel"):
		return "panic-double-close"
	case strings.Contains(text, "close of nil channel"):
		return "panic-close-nil"
	default:
		return "panic-other"
	}
}

// waitRefreshes waits until connection 0 has seen k more notifies than `from`, or until the deadline.
func (fx *fixture) waitRefreshes(from, k int, deadline time.Duration) {
	end := time.Now().Add(deadline)
	for fx.obs.count(0) < from+k {
		left := time.Until(end)
		if left <= 0 {
			return
		}
		select {
		case <-fx.obs.wake:
		case <-time.After(left):
		}
	}
}

// ---------------------------------------------------------------------------------------------
// histories

type op struct {
	Kind string // add | start | stop | running | wait | remove
	K    int    // wait: number of periods
}

func (o op) String() string {
	if o.Kind == "wait" {
		return fmt.Sprintf("wait(%d)", o.K)
	}
	return o.Kind
}

// mark is one executed operation with the harness clock around it.
type mark struct {
	Op        op
	Call, Ret time.Time
	Running   bool // model state after the operation
}

type window struct {
	Kind     string // running | silent
	From, To time.Time
	After    string // the operation that opened it
}

var timeoutsCommon = []time.Duration{100 * time.Millisecond, 200 * time.Millisecond, 300 * time.Millisecond}
var timeoutsLong = []time.Duration{2100 * time.Millisecond, 2300 * time.Millisecond}

func drawOps(t *rapid.T) []op {
	// (rapid favours the front of the list)
	kinds := []string{"wait", "start", "stop", "wait", "start", "stop", "running", "wait", "remove", "start", "stop", "running", "addagain"}
	raw := rapid.SliceOfN(rapid.Custom(func(t *rapid.T) op {
		o := op{Kind: rapid.SampledFrom(kinds).Draw(t, "kind")}
		if o.Kind == "wait" {
			o.K = rapid.IntRange(1, 3).Draw(t, "periods")
		}
		return o
	}), 2, 7).Draw(t, "history")
	// every history is legal: the heartbeat does not depend on the entity being in the device's
	// list, so it can be started again after RemoveEntity and a second RemoveEntity has to stop it
	// again ("after stop, or removal of the entity, has returned ... the data stays unchanged")
	return raw
}

func TestHeartbeatHistories(t *testing.T) {
	rapid.Check(t, world.Prop(func(t *rapid.T) {
		timeout := rapid.SampledFrom(timeoutsCommon).Draw(t, "timeout")
		if rapid.IntRange(0, 9).Draw(t, "longTimeout") == 0 {
			timeout = rapid.SampledFrom(timeoutsLong).Draw(t, "timeoutAbove2s")
		}
		npeers := rapid.IntRange(1, 2).Draw(t, "subscribers")
		lateAdd := rapid.Bool().Draw(t, "functionAddedAfterSubscriptions")
		ops := drawOps(t)
		runHistory(t, timeout, npeers, lateAdd, ops)
	}))
}

// runHistory executes one history and judges it. Also used by the regression tests.
func runHistory(t world.TB, timeout time.Duration, npeers int, lateAdd bool, ops []op) {
	fx := newFixture(t, timeout, npeers, lateAdd, true)
	defer fx.close()
	period := fx.period

	var marks []mark
	var hist []string
	history := func() string {
		return "\n history (timeout " + timeout.String() + ", period " + period.String() + "):\n  " + strings.Join(hist, "\n  ")
	}
	running := false
	ntWhileRunning := false

	exec := func(o op, fn func()) {
		m := mark{Op: o, Call: time.Now()}
		p := guarded(fn)
		m.Ret = time.Now()
		fx.obs.sample(fx.feat)
		if p != "" {
			hist = append(hist, fmt.Sprintf("%s => PANIC %s", o, p))
			world.Fail(t, "C16/sequential/"+panicShape(p)+"/"+o.Kind, "%s panicked: %s%s", o, p, history())
		}
		switch o.Kind {
		case "add", "start":
			running = true
		case "stop", "remove":
			running = false
		}
		m.Running = running
		marks = append(marks, m)
		hist = append(hist, fmt.Sprintf("%-8s at %4d ms (returned after %d us), model running=%v", o, m.Call.Sub(marks[0].Call).Milliseconds(), m.Ret.Sub(m.Call).Microseconds(), running))
	}
	checkRunning := func(when string) {
		got := false
		if p := guarded(func() { got = fx.hm.IsHeartbeatRunning() }); p != "" {
			world.Fail(t, "C16/sequential/"+panicShape(p)+"/running", "IsHeartbeatRunning panicked %s: %s%s", when, p, history())
		}
		if got != running {
			world.Fail(t, fmt.Sprintf("C16/is-running/reports-%v-expected-%v", got, running), "IsHeartbeatRunning() = %v %s, expected %v%s", got, when, running, history())
		}
	}

	// the start of the observation
	baseline := fx.obs.sample(fx.feat)
	if lateAdd {
		// nothing runs yet: Stop and IsHeartbeatRunning are harmless no-ops before the function exists
		checkRunning("before the heartbeat function was added")
		if p := guarded(fx.hm.StopHeartbeat); p != "" {
			world.Fail(t, "C16/sequential/"+panicShape(p)+"/stop-before-add", "StopHeartbeat before the function was added panicked: %s", p)
		}
		exec(op{Kind: "add"}, fx.addFunction)
	} else {
		// already running since AddLocalFeature; the window opens now
		now := time.Now()
		running = true
		marks = append(marks, mark{Op: op{Kind: "add"}, Call: now, Ret: now, Running: true})
		hist = append(hist, "add      before the subscriptions (window opens at 0 ms)")
	}
	checkRunning("after AddFunctionType(heartbeat)")

	for _, o := range ops {
		o := o
		switch o.Kind {
		case "start":
			if running {
				ntWhileRunning = true
			}
			exec(o, func() { _ = fx.hm.StartHeartbeat() })
			checkRunning("after StartHeartbeat")
		case "stop":
			if running {
				ntWhileRunning = true
			}
			exec(o, fx.hm.StopHeartbeat)
			checkRunning("after StopHeartbeat")
		case "remove":
			if running {
				ntWhileRunning = true
			}
			exec(o, func() { fx.w.Local.RemoveEntity(fx.ent) })
			checkRunning("after RemoveEntity")
		case "running":
			exec(o, func() {})
			checkRunning("in the history")
		case "addagain":
			// AddFunctionType(heartbeat) for a feature that has the function already: nothing is added, nothing
			// starts or stops - in particular a stopped heartbeat stays stopped
			exec(o, func() { fx.feat.AddFunctionType(model.FunctionTypeDeviceDiagnosisHeartbeatData, true, false) })
			checkRunning("after AddFunctionType(heartbeat) for a function the feature already has")
		case "wait":
			from := fx.obs.count(0)
			if running {
				exec(o, func() { fx.waitRefreshes(from, o.K, time.Duration(o.K)*maxGap(timeout)+100*time.Millisecond) })
			} else {
				exec(o, func() { time.Sleep(time.Duration(o.K) * period) })
			}
		}
	}
	// every case ends with a stop (if still running, after two more refreshes) and the silence after it
	if running {
		from := fx.obs.count(0)
		exec(op{Kind: "wait", K: 2}, func() { fx.waitRefreshes(from, 2, 2*maxGap(timeout)+100*time.Millisecond) })
		exec(op{Kind: "stop"}, fx.hm.StopHeartbeat)
		checkRunning("after the final StopHeartbeat")
	}
	lastChange := marks[0].Ret
	for _, m := range marks {
		if m.Op.Kind == "stop" || m.Op.Kind == "remove" || m.Op.Kind == "start" || m.Op.Kind == "add" {
			lastChange = m.Ret
		}
	}
	if d := time.Until(lastChange.Add(time.Duration(silencePeriods)*period + 30*time.Millisecond)); d > 0 {
		time.Sleep(d)
	}
	end := time.Now()
	fx.obs.sample(fx.feat)
	checkRunning("at the end")
	// stop observing
	close(fx.obs.stop)
	<-fx.obs.done

	// ---- statistics
	var kinds []string
	for _, m := range marks {
		kinds = append(kinds, m.Op.String())
	}
	labels := []string{"timeout/" + timeout.String(), fmt.Sprintf("subscribers/%d", npeers), fmt.Sprintf("lateAdd/%v", lateAdd)}
	for _, o := range ops {
		labels = append(labels, "op/"+o.Kind)
	}
	fx.obs.mu.Lock()
	over := fx.obs.maxOver
	fx.obs.mu.Unlock()
	labels = append(labels, overBucket(over))
	if over > descheduleLimit {
		// the harness itself did not get the CPU: nothing about timing can be concluded
		world.Record(0, false, append(labels, "discarded/harness-descheduled")...)
		return
	}
	world.Record(world.Hash(timeout, npeers, lateAdd, kinds), ntWhileRunning, labels...)
	if ntWhileRunning && world.WantSample() {
		world.Sample(map[string]any{"kind": "history", "timeout": timeout.String(), "subscribers": npeers, "functionAddedLate": lateAdd, "history": hist})
	}

	judgeHistory(t, fx, baseline, marks, end, history)
}

// noteMargin keeps the worst observed ratio of a mean gap to its bound in the evidence (how much
// room the timing tolerance left in this run).
var worstMargin struct {
	sync.Mutex
	permille int64
}

func noteMargin(mean, bound time.Duration) {
	r := int64(mean) * 1000 / int64(bound)
	worstMargin.Lock()
	if r > worstMargin.permille {
		worstMargin.permille = r
		world.SetExtra("worst_mean_gap_permille_of_bound", r)
	}
	worstMargin.Unlock()
}

func overBucket(over time.Duration) string {
	for _, b := range []time.Duration{5, 10, 20, 50, 100, 200} {
		if over <= b*time.Millisecond {
			return fmt.Sprintf("harness-oversleep/<=%dms", b)
		}
	}
	return "harness-oversleep/>200ms"
}

// judgeHistory evaluates the invariant of DESIGN §4 C16 over everything that was observed.
func judgeHistory(t world.TB, fx *fixture, baseline seen, marks []mark, end time.Time, history func() string) {
	o := fx.obs
	t0 := marks[0].Call
	ms := func(at time.Time) int64 { return at.Sub(t0).Milliseconds() }
	o.mu.Lock()
	notifs := make([][]seen, len(o.notifs))
	for i := range o.notifs {
		notifs[i] = append([]seen(nil), o.notifs[i]...)
	}
	samples := append([]seen(nil), o.samples...)
	o.mu.Unlock()
	c0 := uint64(0)
	if baseline.HasCtr {
		c0 = baseline.Counter
	}
	render := func() string {
		var b strings.Builder
		for i, l := range notifs {
			fmt.Fprintf(&b, "\n notifies on connection %d:", i+1)
			for _, s := range l {
				fmt.Fprintf(&b, " #%d@%dms", s.Counter, ms(s.At))
			}
		}
		b.WriteString("\n data changes sampled:")
		for _, s := range samples {
			fmt.Fprintf(&b, " #%d@%dms", s.Counter, ms(s.At))
		}
		return b.String() + history()
	}

	// (1) well-formed, announced time-out, strictly increasing counters on every connection, current timestamps
	for ci, l := range notifs {
		var prev *seen
		for i := range l {
			s := &l[i]
			if !s.HasCtr || !s.TSok {
				world.Fail(t, "C16/notify/counter-or-timestamp-missing", "notify %d on connection %d lacks counter or absolute timestamp%s", i, ci+1, render())
			}
			if !s.TOok || s.Timeout != fx.timeout {
				world.Fail(t, "C16/timeout/announced-differs", "notify #%d announces time-out %v (ok=%v), the entity was created with %v%s", s.Counter, s.Timeout, s.TOok, fx.timeout, render())
			}
			if prev != nil && s.Counter <= prev.Counter {
				world.Fail(t, "C16/monotone/counter-not-increasing", "connection %d received counter %d after %d%s", ci+1, s.Counter, prev.Counter, render())
			}
			if d := s.At.UTC().Sub(s.TS); d > timestampTolerance || d < -timestampTolerance {
				world.Fail(t, "C16/timestamp/not-current", "notify #%d carries timestamp %s, harness clock %s%s", s.Counter, s.TS.Format(time.RFC3339), s.At.UTC().Format(time.RFC3339Nano), render())
			}
			prev = s
		}
	}
	var prevS *seen
	for i := range samples {
		s := &samples[i]
		if !s.HasCtr {
			continue
		}
		if prevS != nil && s.Counter <= prevS.Counter {
			world.Fail(t, "C16/monotone/data-counter-not-increasing", "DataCopy showed counter %d after %d%s", s.Counter, prevS.Counter, render())
		}
		if d := s.At.UTC().Sub(s.TS); s.Counter > c0 && (!s.TSok || d > timestampTolerance || d < -timestampTolerance) {
			world.Fail(t, "C16/timestamp/not-current", "data #%d carries timestamp %s (ok=%v), harness clock %s%s", s.Counter, s.TS.Format(time.RFC3339), s.TSok, s.At.UTC().Format(time.RFC3339Nano), render())
		}
		prevS = s
	}

	// (2) every refresh notified to every subscriber: same counters (> c0) on all connections,
	// and every counter DataCopy showed was notified. Not asserted for a refresh that completes
	// after RemoveEntity was called: whether a removed entity still has subscribers is left open.
	var removedAt time.Time
	for _, m := range marks {
		if m.Op.Kind == "remove" {
			removedAt = m.Call
			break
		}
	}
	beforeRemoval := func(s seen) bool { return removedAt.IsZero() || s.At.Before(removedAt) }
	setOf := func(l []seen) map[uint64]bool {
		m := map[uint64]bool{}
		for _, s := range l {
			if s.Counter > c0 {
				m[s.Counter] = true
			}
		}
		return m
	}
	sets := make([]map[uint64]bool, len(notifs))
	for i := range notifs {
		sets[i] = setOf(notifs[i])
	}
	for i := range notifs {
		for _, s := range notifs[i] {
			if s.Counter <= c0 || !beforeRemoval(s) {
				continue
			}
			for j := range sets {
				if !sets[j][s.Counter] {
					world.Fail(t, "C16/notify/missing-on-one-subscriber", "refresh #%d was notified on connection %d but not on connection %d%s", s.Counter, i+1, j+1, render())
				}
			}
		}
	}
	for _, s := range samples {
		if s.HasCtr && s.Counter > c0 && beforeRemoval(s) {
			for i := range sets {
				if !sets[i][s.Counter] {
					world.Fail(t, "C16/notify/refresh-not-notified", "the data showed refresh #%d but connection %d was never notified of it%s", s.Counter, i+1, render())
				}
			}
		}
	}

	// (3) windows
	var wins []window
	var cur *window
	closeAt := func(at time.Time) {
		if cur != nil {
			cur.To = at
			wins = append(wins, *cur)
			cur = nil
		}
	}
	for _, m := range marks {
		switch m.Op.Kind {
		case "add", "start":
			closeAt(m.Call)
			cur = &window{Kind: "running", From: m.Ret, After: m.Op.Kind}
		case "stop", "remove":
			if cur != nil && cur.Kind == "silent" {
				continue // still silent, the earlier window goes on
			}
			closeAt(m.Call)
			cur = &window{Kind: "silent", From: m.Ret, After: m.Op.Kind}
		}
	}
	closeAt(end)

	refs := o.refreshes()
	for _, w := range wins {
		var in []refresh
		for _, r := range refs {
			if r.Counter > c0 && !r.At.Before(w.From) && r.At.Before(w.To) {
				in = append(in, r)
			}
		}
		sort.Slice(in, func(i, j int) bool { return in[i].At.Before(in[j].At) })
		n := len(in)
		W := w.To.Sub(w.From)
		desc := fmt.Sprintf("%s window after %s, %d..%d ms (%v): %d refreshes", w.Kind, w.After, ms(w.From), ms(w.To), W.Round(time.Millisecond), n)
		switch w.Kind {
		case "silent":
			if n > 1 {
				shape := "after-stop"
				if w.After == "remove" {
					shape = "after-remove-entity"
				}
				world.Fail(t, "C16/stopped/refreshes-"+shape, "%s; at most one (already in flight) is allowed%s", desc, render())
			}
			// the data stays unchanged: the distinct values DataCopy showed inside the window
			vals := map[string]bool{}
			for _, s := range samples {
				if !s.At.Before(w.From) && s.At.Before(w.To) {
					vals[s.Text] = true
				}
			}
			// the first sample inside may be the value before the in-flight refresh
			if len(vals) > 2 {
				world.Fail(t, "C16/stopped/data-keeps-changing", "%s; DataCopy showed %d different values%s", desc, len(vals), render())
			}
		case "running":
			limit := int(W/fx.period) + countSlack
			if n > limit {
				shape := "first-start"
				if w.After == "start" {
					shape = "restart"
				}
				world.Fail(t, "C16/second-stream/"+shape, "%s; one stream of period %v produces at most %d%s", desc, fx.period, limit, render())
			}
			single := maxGap(fx.timeout) + singleGapExtra
			if n == 0 {
				if W > single {
					world.Fail(t, "C16/period/no-refresh-while-running", "%s; the announced time-out is %v%s", desc, fx.timeout, render())
				}
				continue
			}
			mean := in[n-1].At.Sub(w.From) / time.Duration(n)
			noteMargin(mean, maxGap(fx.timeout))
			if mean > maxGap(fx.timeout) {
				world.Fail(t, "C16/period/mean-gap-exceeds-timeout", "%s; mean gap %v > %v (announced time-out %v x 1.5 + 50 ms)%s", desc, mean.Round(time.Millisecond), maxGap(fx.timeout), fx.timeout, render())
			}
			if tail := w.To.Sub(in[n-1].At); tail > single {
				world.Fail(t, "C16/period/no-refresh-while-running", "%s; nothing during the last %v of the window, the announced time-out is %v%s", desc, tail.Round(time.Millisecond), fx.timeout, render())
			}
		}
	}
}

// TestSequentialScenarios: fixed histories (restart, stop-then-silence, removal-then-silence, a
// time-out above 2 s) judged by the same oracle; the seconds-long deterministic tier.
func TestSequentialScenarios(t *testing.T) {
	ms := time.Millisecond
	w := func(k int) op { return op{Kind: "wait", K: k} }
	start, stop, running, remove := op{Kind: "start"}, op{Kind: "stop"}, op{Kind: "running"}, op{Kind: "remove"}
	cases := []struct {
		timeout time.Duration
		peers   int
		lateAdd bool
		ops     []op
	}{
		{100 * ms, 1, false, []op{w(2), start, w(3), start, start, w(2), stop}},
		{100 * ms, 2, true, []op{stop, stop, w(3), start, w(2), stop, running, start}},
		{200 * ms, 2, false, []op{w(1), remove, running, stop, w(3)}},
		{2100 * ms, 1, true, []op{w(3), start, w(2)}},
		// the boundary of the shortening rule: a time-out of exactly 2 s is not shortened (the longest period there is)
		{2000 * ms, 1, false, []op{w(1), stop}},
		// the heartbeat outlives the entity's membership in the device: started again after the
		// removal, a second removal has to stop it again
		{100 * ms, 1, false, []op{w(1), remove, start, w(2), remove, running, w(3)}},
		{100 * ms, 1, true, []op{remove, w(2), start, w(1), remove, w(2)}},
	}
	for _, c := range cases {
		world.Guard(func() { runHistory(t, c.timeout, c.peers, c.lateAdd, c.ops) })
	}
}
