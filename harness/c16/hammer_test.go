package c16

import (
	"fmt"
	"sync"
	"testing"
	"time"

	"verifharness/world"
)

const (
	hammerGoroutines = 8
	hammerCalls      = 24
	hammerBatch      = 50
)

// hammerKind is a fixed, seed-free mix (the schedule is what varies between rounds): per goroutine
// a different rotation of start / stop / stop / running / start / stop.
func hammerKind(round, g, i int) string {
	mix := []string{"start", "stop", "stop", "running", "start", "stop", "running", "stop"}
	return mix[(round*7+g*3+i*(g%3+1))%len(mix)]
}

type hammered struct {
	fx      *fixture
	round   int
	stopped time.Time
}

// TestHeartbeatHammer: free-running goroutines call Start / Stop / IsHeartbeatRunning on one
// heartbeat manager; no call may panic, and afterwards a Stop must silence the heartbeat.
func TestHeartbeatHammer(t *testing.T) {
	rounds := world.EnvInt("VERIF_ROUNDS", 200)
	panics := map[string]int{}
	var firstPanic string
	survivors := 0
	var firstSurvivor string
	var batch []hammered
	settle := func() {
		if len(batch) == 0 {
			return
		}
		last := batch[len(batch)-1].stopped
		if d := time.Until(last.Add(4*schedTimeout + 30*time.Millisecond)); d > 0 {
			time.Sleep(d)
		}
		for _, h := range batch {
			h.fx.obs.sample(h.fx.feat)
			n, list := h.fx.countAfter(h.stopped)
			running := h.fx.hm.IsHeartbeatRunning()
			// the batch was observed for four periods after its last stop: a stopped stream is gone by
			// now, one that is not has been counted - either way there is nothing to wait for
			h.fx.leaked = true
			if n > 1 || running {
				survivors++
				if firstSurvivor == "" {
					firstSurvivor = fmt.Sprintf("round %d: %d refreshes within %v after the final StopHeartbeat returned (%s), IsHeartbeatRunning()=%v", h.round, n, time.Since(h.stopped).Round(time.Millisecond), list, running)
				}
			}
			h.fx.close()
		}
		batch = batch[:0]
	}
	for r := 0; r < rounds; r++ {
		fx := newFixture(t, schedTimeout, 1, false, false)
		if r%2 == 1 {
			fx.hm.StopHeartbeat() // every other round starts from a stopped heartbeat
		}
		var mu sync.Mutex
		var wg sync.WaitGroup
		start := make(chan struct{})
		for g := 0; g < hammerGoroutines; g++ {
			g := g
			wg.Add(1)
			go func() {
				defer wg.Done()
				<-start
				for i := 0; i < hammerCalls; i++ {
					kind := hammerKind(r, g, i)
					p := guarded(func() {
						switch kind {
						case "start":
							_ = fx.hm.StartHeartbeat()
						case "stop":
							fx.hm.StopHeartbeat()
						default:
							_ = fx.hm.IsHeartbeatRunning()
						}
					})
					if p != "" {
						mu.Lock()
						panics[panicShape(p)]++
						if firstPanic == "" {
							firstPanic = fmt.Sprintf("round %d, goroutine %d, call %d (%s): %s", r, g, i, kind, p)
						}
						mu.Unlock()
					}
				}
			}()
		}
		close(start)
		wg.Wait()
		world.Record(world.Hash("hammer", r), true, "hammer/round")
		final := guarded(fx.hm.StopHeartbeat)
		if final != "" {
			panics[panicShape(final)]++
			if firstPanic == "" {
				firstPanic = fmt.Sprintf("round %d, final StopHeartbeat: %s", r, final)
			}
		}
		fx.obs.sample(fx.feat)
		batch = append(batch, hammered{fx: fx, round: r, stopped: time.Now()})
		if len(batch) >= hammerBatch {
			settle()
		}
	}
	settle()
	total := 0
	for shape, n := range panics {
		total += n
		world.AddExtra("hammer/"+shape, int64(n))
	}
	world.AddExtra("hammer/rounds", int64(rounds))
	world.AddExtra("hammer/surviving-streams", int64(survivors))
	world.Guard(func() {
		for shape, n := range panics {
			world.Fail(t, "C16/concurrent/"+shape, "free-running hammer (%d goroutines x %d calls, %d rounds): %d calls panicked (%d of this shape); first: %s", hammerGoroutines, hammerCalls, rounds, total, n, firstPanic)
		}
	})
	world.Guard(func() {
		if survivors > 0 {
			world.Fail(t, "C16/concurrent/second-stream", "free-running hammer: in %d of %d rounds the heartbeat kept refreshing after the final StopHeartbeat; first: %s", survivors, rounds, firstSurvivor)
		}
	})
}
