//go:build verif

package c16

import (
	"fmt"
	"sort"
	"strings"
	"testing"
	"time"

	"verifharness/sched"
	"verifharness/world"
)

const (
	pointStop  = "StopHeartbeat.afterCheck"
	pointStart = "StartHeartbeat.afterStop"
)

var hbPoints = []string{pointStop, pointStart}

const schedTimeout = 100 * time.Millisecond

// a concurrent scenario: the calls made by the threads, all on one heartbeat manager
type scenario struct {
	Name    string
	Threads []string // start | stop
}

var scenarios = []scenario{
	{Name: "Stop||Stop", Threads: []string{"stop", "stop"}},
	{Name: "Start||Stop", Threads: []string{"start", "stop"}},
	{Name: "Start||Start", Threads: []string{"start", "start"}},
	{Name: "Start||Stop||Stop", Threads: []string{"start", "stop", "stop"}},
	{Name: "Start||Start||Stop", Threads: []string{"start", "start", "stop"}},
}

// scheduleCap bounds the number of schedules per (scenario, initial state); the two-thread spaces
// are far below it, the three-thread mixes are cut in the quick tier (and say so in the evidence).
func scheduleCap(sc scenario) int {
	if len(sc.Threads) <= 2 {
		return 400
	}
	return world.EnvInt("VERIF_SCHED_MAX", map[bool]int{false: 24, true: 1500}[world.Thorough()])
}

// countAfter counts the refreshes first seen at or after `from`.
func (fx *fixture) countAfter(from time.Time) (n int, list string) {
	var b strings.Builder
	for _, r := range fx.obs.refreshes() {
		if !r.At.Before(from) {
			n++
			fmt.Fprintf(&b, " #%d@+%dms", r.Counter, r.At.Sub(from).Milliseconds())
		}
	}
	return n, b.String()
}

// failC labels the outcome (so that the evidence shows which shapes were seen behind a known
// finding) and reports it.
func failC(t world.TB, sig, format string, args ...any) {
	world.Label("outcome/" + sig)
	world.Fail(t, sig, format, args...)
}

// judgeAfterwards is the oracle applied after concurrent Start / Stop calls have all returned:
// a final Stop leaves no stream running, a final Start exactly one.
func judgeAfterwards(t world.TB, fx *fixture, how string) {
	period := fx.period
	if p := guarded(fx.hm.StopHeartbeat); p != "" {
		failC(t, "C16/concurrent/"+panicShape(p)+"/final-stop", "%s: the final StopHeartbeat panicked: %s", how, p)
	}
	stopped := time.Now()
	fx.obs.sample(fx.feat)
	if fx.hm.IsHeartbeatRunning() {
		failC(t, "C16/concurrent/running-after-stop", "%s: IsHeartbeatRunning() = true after the final StopHeartbeat returned", how)
	}
	time.Sleep(4*period + 30*time.Millisecond)
	fx.obs.sample(fx.feat)
	if n, list := fx.countAfter(stopped); n > 1 {
		fx.leaked = true
		failC(t, "C16/concurrent/second-stream", "%s: %d refreshes within %v after the final StopHeartbeat returned (%s): a heartbeat stream survived that nobody can stop any more", how, n, time.Since(stopped).Round(time.Millisecond), list)
	}
	if fx.hm.IsHeartbeatRunning() {
		failC(t, "C16/concurrent/running-after-stop", "%s: IsHeartbeatRunning() = true %v after the final StopHeartbeat", how, time.Since(stopped).Round(time.Millisecond))
	}
	// a final Start: exactly one stream
	if p := guarded(func() { _ = fx.hm.StartHeartbeat() }); p != "" {
		failC(t, "C16/concurrent/"+panicShape(p)+"/final-start", "%s: the final StartHeartbeat panicked: %s", how, p)
	}
	started := time.Now()
	if !fx.hm.IsHeartbeatRunning() {
		failC(t, "C16/concurrent/not-running-after-start", "%s: IsHeartbeatRunning() = false after the final StartHeartbeat", how)
	}
	from := fx.obs.count(0)
	fx.waitRefreshes(from, 3, 3*maxGap(fx.timeout)+100*time.Millisecond)
	fx.obs.sample(fx.feat)
	W := time.Since(started)
	n, list := fx.countAfter(started)
	if limit := int(W/period) + countSlack; n > limit {
		failC(t, "C16/concurrent/second-stream-after-start", "%s: %d refreshes within %v after the final StartHeartbeat (%s); one stream of period %v produces at most %d", how, n, W.Round(time.Millisecond), list, period, limit)
	}
	if n < 3 {
		failC(t, "C16/concurrent/no-stream-after-start", "%s: only %d refreshes within %v after the final StartHeartbeat (%s)", how, n, W.Round(time.Millisecond), list)
	}
	if p := guarded(fx.hm.StopHeartbeat); p != "" {
		failC(t, "C16/concurrent/"+panicShape(p)+"/final-stop", "%s: the closing StopHeartbeat panicked: %s", how, p)
	}
}

// threadsInWindow counts the controlled threads that parked at a yield point at least once.
func threadsInWindow(r *sched.Result) int {
	in := map[string]bool{}
	for _, l := range r.Trace {
		if i := strings.Index(l, " parks at "); i > 0 {
			in[l[:i]] = true
		}
	}
	return len(in)
}

// schedCase builds one execution of a scenario: a fresh fixture, the controlled operations and the
// judge (the oracle of DESIGN §4 C16 for schedules). observe decides whether this execution is
// observed in real time (~0.8 s) or only executed; judged is called for every observed one.
func schedCase(t *testing.T, test string, si, init int, observe func() bool, judged func(r *sched.Result, threadsIn int)) ([]sched.Op, func(*sched.Result)) {
	sc := scenarios[si]
	fx := newFixture(t, schedTimeout, 1, false, false)
	if init == 0 {
		fx.hm.StopHeartbeat()
	}
	var ops []sched.Op
	for ti, kind := range sc.Threads {
		name := fmt.Sprintf("T%d.%s", ti+1, kind)
		if kind == "start" {
			ops = append(ops, sched.Op{Name: name, Fn: func() { _ = fx.hm.StartHeartbeat() }})
		} else {
			ops = append(ops, sched.Op{Name: name, Fn: fx.hm.StopHeartbeat})
		}
	}
	return ops, func(r *sched.Result) {
		defer fx.close()
		if !observe() {
			fx.leaked = true // nobody looked: do not wait for the goroutines either
			return
		}
		defer func() {
			if t.Failed() {
				world.SaveReplay(test+".json", sched.ReplaySpec{Test: test, Params: map[string]int{"scenario": si, "running": init}, Choices: r.Choices, Trace: r.Trace})
			}
		}()
		in := threadsInWindow(r)
		nt := in >= 2
		judged(r, in)
		world.Record(world.Hash("sched", sc.Name, init, r.Choices), nt, "sched/"+sc.Name, fmt.Sprintf("sched/threads-in-window/%d", in))
		if nt && world.WantSample() {
			world.Sample(map[string]any{"kind": "schedule", "scenario": sc.Name, "runningAtStart": init == 1, "trace": r.Trace})
		}
		how := fmt.Sprintf("%s (heartbeat %s at the start), schedule [%s]", sc.Name, map[int]string{0: "stopped", 1: "running"}[init], r)
		// a known finding abandons this schedule only; the enumeration goes on
		world.Guard(func() {
			var names []string
			for name := range r.Panics {
				names = append(names, name)
			}
			sort.Strings(names)
			for _, name := range names {
				failC(t, "C16/concurrent/"+panicShape(r.Panics[name]), "%s: %s panicked: %s", how, name, r.Panics[name])
			}
			if r.Deadlock {
				failC(t, "C16/concurrent/deadlock", "%s: not all calls returned", how)
			}
			judgeAfterwards(t, fx, how)
		})
	}
}

// TestHeartbeatInterleavings enumerates every interleaving of concurrent StartHeartbeat /
// StopHeartbeat calls over the yield points between the running check and the close, and between
// the stop and the creation of the new channel. Every shard enumerates all schedules (cheap) and
// observes its share of them.
func TestHeartbeatInterleavings(t *testing.T) {
	const test = "TestHeartbeatInterleavings"
	replay := sched.LoadReplay(test)
	shard, shards := world.EnvInt("VERIF_SHARD", 0), world.EnvInt("VERIF_SHARDS", 1)
	reached, seq := 0, 0
	exhaustive := true
	for si, sc := range scenarios {
		for init := 1; init >= 0; init-- { // 1: the heartbeat is running when the calls start
			si, sc, init := si, sc, init
			if init == 0 && !strings.Contains(sc.Name, "Start") {
				continue // Stop calls on a stopped heartbeat never enter a window
			}
			if replay != nil && (replay.Params["scenario"] != si || replay.Params["running"] != init) {
				continue
			}
			observe := func() bool {
				seq++
				return replay != nil || seq%shards == shard
			}
			judged := func(r *sched.Result, in int) {
				if in > 0 {
					reached++
				}
				world.AddExtra("schedules", 1)
				world.AddExtra("schedules/"+sc.Name, 1)
			}
			build := func() ([]sched.Op, func(*sched.Result)) { return schedCase(t, test, si, init, observe, judged) }
			if replay != nil {
				world.Guard(func() {
					ops, judge := build()
					judge(sched.RunChoices(ops, hbPoints, replay.Choices))
				})
				continue
			}
			max := scheduleCap(sc)
			n := 0
			world.Guard(func() { n = sched.Enumerate(hbPoints, max, build) })
			if n >= max {
				exhaustive = false
				world.Label("sched/capped/" + sc.Name)
			}
		}
	}
	world.SetExtra("schedule_enumeration_exhaustive", exhaustive)
	world.SetExtra("yield_point_reached", reached > 0)
	if reached == 0 && seq >= shards {
		t.Logf("yield points %v never reached: only the free-running hammer explores these windows", hbPoints)
	}
}

// TestScheduleRegressions replays the schedules that exposed F18 (DESIGN §5) on the pinned tree.
func TestScheduleRegressions(t *testing.T) {
	const test = "TestScheduleRegressions"
	cases := []struct {
		name     string
		scenario int
		running  int
		choices  []int
	}{
		// both Stop calls pass the running check, then both close the channel
		{"Stop||Stop: check, check, close, close", 0, 1, []int{0, 1, 0}},
		// Start's inner stop and the Stop call both pass the check; Stop closes before Start made the new channel
		{"Start||Stop: check, check, close, close", 1, 1, []int{0, 1, 0, 1}},
		// both Starts are past their stop; each creates a channel and a stream, the first channel is lost
		{"Start||Start: stop, stop, make+go, make+go", 2, 1, []int{0, 0, 1, 0}},
		// the same from a stopped heartbeat
		{"Start||Start from stopped: both past the stop", 2, 0, []int{0, 1, 0}},
	}
	replay := sched.LoadReplay(test)
	for _, c := range cases {
		if replay != nil {
			c.scenario, c.running, c.choices = replay.Params["scenario"], replay.Params["running"], replay.Choices
		}
		world.Guard(func() {
			ops, judge := schedCase(t, test, c.scenario, c.running, func() bool { return true }, func(*sched.Result, int) {})
			judge(sched.RunChoices(ops, hbPoints, c.choices))
		})
		if replay != nil {
			break
		}
	}
}
