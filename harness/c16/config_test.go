package c16

import (
	"encoding/json"
	"fmt"
	"runtime"
	"sync"
	"sync/atomic"
	"testing"
	"time"

	"github.com/enbility/spine-go/model"
	"pgregory.net/rapid"

	"verifharness/world"
)

// ---------------------------------------------------------------------------------------------
// TestAnnouncedPeriod: the time-out an entity is created with need not be a multiple of 100 ms,
// while the announced time-out (the heartbeatTimeout element of the data, an xs:duration text) is.
// The refreshes come with a period not exceeding the time-out that is ANNOUNCED.
//
// The mean gap over >= 8 refreshes is compared with the announced value x 1.3 + 10 ms. A ticker of
// the harness with the announced period runs next to it: if the machine did not even let that one
// tick on time, the case is discarded and counted, not judged.
func TestAnnouncedPeriod(t *testing.T) {
	rapid.Check(t, world.Prop(func(t *rapid.T) {
		created := time.Duration(rapid.SampledFrom([]int{130, 150, 190, 250, 290, 100, 200}).Draw(t, "createdWithMilliseconds")) * time.Millisecond
		n := rapid.IntRange(8, 12).Draw(t, "refreshes")
		fx := newFixture(t, created, 1, false, false)
		defer fx.close()
		first := fx.obs.sample(fx.feat)
		if !first.TOok || first.Timeout <= 0 {
			world.Fail(t, "C16/timeout/not-announced", "the heartbeat data of an entity created with time-out %v announces no time-out: %s", created, first.Text)
		}
		announced := first.Timeout
		if announced > created {
			world.Fail(t, "C16/timeout/announced-exceeds-configured", "entity created with time-out %v announces %v", created, announced)
		}
		period := periodOf(announced)
		// the subscriber's connection may be slow without ever stalling: every notification takes a good part of a
		// period to be written. The refreshes are periodic all the same - the period does not grow by what the
		// notifications take
		writeTakes := time.Duration(rapid.SampledFrom([]int{0, 0, 40, 50}).Draw(t, "writeTakesPercentOfPeriod")) * period / 100
		if writeTakes > 0 {
			p := fx.peers[0]
			p.Cap.SetOnWrite(func(raw []byte) {
				fx.obs.onWrite(0, raw)
				time.Sleep(writeTakes)
			})
			world.Label("announced-period/slow-connection")
		}
		// the control ticker
		var control atomic.Int32
		stop := make(chan struct{})
		var wg sync.WaitGroup
		wg.Add(1)
		go func() {
			defer wg.Done()
			tk := time.NewTicker(period)
			defer tk.Stop()
			for {
				select {
				case <-stop:
					return
				case <-tk.C:
					control.Add(1)
				}
			}
		}()
		from := fx.obs.count(0)
		t0 := time.Now()
		fx.waitRefreshes(from, n, time.Duration(n)*period*3+time.Second)
		elapsed := time.Since(t0)
		close(stop)
		wg.Wait()
		got := fx.obs.count(0) - from
		expectedControl := int(elapsed / period)
		if int(control.Load()) < expectedControl*8/10 {
			world.Record(world.Hash("announced-period-discarded", created, n), false, "announced-period/discarded-machine-too-slow")
			return
		}
		var hist []string
		fx.obs.mu.Lock()
		l := append([]seen(nil), fx.obs.notifs[0]...)
		fx.obs.mu.Unlock()
		for _, s := range l {
			hist = append(hist, fmt.Sprintf("#%d@+%dms", s.Counter, s.At.Sub(t0).Milliseconds()))
		}
		limit := announced*13/10 + 10*time.Millisecond
		if got < n {
			world.Fail(t, "C16/period/exceeds-announced-timeout", "entity created with time-out %v announces %v; only %d refreshes were notified within %v (%d ticks of a ticker with the announced period in the same time)\n notifications: %v", created, announced, got, elapsed.Round(time.Millisecond), control.Load(), hist)
		}
		lst := l[from:]
		mean := lst[len(lst)-1].At.Sub(lst[0].At) / time.Duration(len(lst)-1)
		if mean > limit {
			world.Fail(t, "C16/period/exceeds-announced-timeout", "entity created with time-out %v announces %v, but the mean gap of %d notified refreshes is %v (limit: announced x 1.3 + 10 ms = %v; a ticker with the announced period ticked %d times meanwhile)\n notifications: %v", created, announced, len(lst), mean.Round(time.Millisecond), limit, control.Load(), hist)
		}
		for _, s := range lst {
			if s.TOok && s.Timeout != announced {
				world.Fail(t, "C16/timeout/announced-changes", "the announced time-out changed from %v to %v (refresh #%d)", announced, s.Timeout, s.Counter)
			}
		}
		nt := created != announced
		world.Record(world.Hash("announced-period", created, n), true, fmt.Sprintf("announced-period/created-%dms-announced-%dms", created.Milliseconds(), announced.Milliseconds()))
		_ = nt
		if world.WantSample() {
			world.Sample(map[string]any{"check": "announced-period", "created_with_ms": created.Milliseconds(), "announced_ms": announced.Milliseconds(), "refreshes": len(lst), "mean_gap_ms": mean.Milliseconds()})
		}
	}))
}

// ---------------------------------------------------------------------------------------------
// TestSlowSubscriber: a subscriber of the device diagnosis feature whose connection does not take
// the notification for several periods (a stalled SHIP writer), StopHeartbeat or RemoveEntity
// meanwhile. After the call has returned the data shows at most one more refresh, however long the
// connection was stalled, and then stays unchanged.
func TestSlowSubscriber(t *testing.T) {
	rapid.Check(t, world.Prop(func(t *rapid.T) {
		stallPeriods := rapid.IntRange(2, 6).Draw(t, "stalledForPeriods")
		how := rapid.SampledFrom([]string{"stop", "remove"}).Draw(t, "call")
		// once the stalled notification is through, the connection may stay slow: every further write takes
		// longer than a period, so that the next tick is due whenever a refresh has been notified
		slowAfterwards := rapid.Bool().Draw(t, "connectionStaysSlow")
		const timeout = 100 * time.Millisecond
		fx := newFixture(t, timeout, 1, false, false)
		defer fx.close()
		var armed, blocked atomic.Bool
		release := make(chan struct{})
		var once sync.Once
		unblock := func() { once.Do(func() { close(release) }) }
		defer unblock()
		p := fx.peers[0]
		p.Cap.SetOnWrite(func(raw []byte) {
			fx.obs.onWrite(0, raw)
			if armed.CompareAndSwap(true, false) {
				blocked.Store(true)
				<-release
			} else if slowAfterwards && blocked.Load() {
				time.Sleep(timeout + timeout/4)
			}
		})
		fx.waitRefreshes(fx.obs.count(0), 2, 2*time.Second)
		armed.Store(true)
		deadline := time.Now().Add(2 * time.Second)
		for !blocked.Load() {
			if time.Now().After(deadline) {
				// the machine is too busy to let a 100 ms heartbeat tick within 2 s: not judged
				armed.Store(false)
				world.Record(world.Hash("slow-subscriber-discarded", stallPeriods, how), false, "slow-subscriber/discarded-no-tick-within-2s")
				return
			}
			time.Sleep(time.Millisecond)
		}
		time.Sleep(time.Duration(stallPeriods)*timeout + timeout/2)
		done := make(chan string, 1)
		go func() {
			done <- guarded(func() {
				if how == "stop" {
					fx.hm.StopHeartbeat()
				} else {
					fx.w.Local.RemoveEntity(fx.ent)
				}
			})
		}()
		select {
		case p := <-done:
			if p != "" {
				world.Fail(t, "C16/sequential/"+panicShape(p)+"/"+how, "%s while a subscriber's connection is stalled panicked: %s", how, p)
			}
		case <-time.After(10 * time.Second):
			unblock()
			world.Fail(t, "C16/slow-subscriber/"+how+"-does-not-return", "%s did not return within 10 s while the connection of a subscriber does not take the notification", how)
		}
		atReturn := fx.obs.sample(fx.feat)
		unblock()
		time.Sleep(time.Duration(silencePeriods)*timeout + 50*time.Millisecond)
		if slowAfterwards {
			time.Sleep(3 * timeout) // (whatever still goes out takes its time)
		}
		after := fx.obs.sample(fx.feat)
		if !atReturn.HasCtr || !after.HasCtr {
			t.Fatalf("harness: heartbeat data without counter: %s / %s", atReturn.Text, after.Text)
		}
		if after.Counter > atReturn.Counter+1 {
			world.Fail(t, "C16/refresh-after-stop/slow-subscriber-"+how, "the connection of the subscriber was stalled for %d periods of %v; the heartbeat counter was %d when %s returned and is %d now: %d refreshes completed afterwards (at most one was in flight; connection slow afterwards: %v)", stallPeriods, timeout, atReturn.Counter, how, after.Counter, after.Counter-atReturn.Counter, slowAfterwards)
		}
		time.Sleep(2 * timeout)
		if last := fx.obs.sample(fx.feat); last.Counter != after.Counter {
			world.Fail(t, "C16/refresh-after-stop/slow-subscriber-"+how+"-stream-alive", "%d periods after %s returned the counter still advances (%d -> %d)", silencePeriods+2, how, after.Counter, last.Counter)
		}
		world.Record(world.Hash("slow-subscriber", stallPeriods, how, slowAfterwards), true, "slow-subscriber/"+how, fmt.Sprintf("slow-subscriber/slow-afterwards/%v", slowAfterwards), fmt.Sprintf("slow-subscriber/stalled-%d-periods", stallPeriods))
		if world.WantSample() {
			world.Sample(map[string]any{"check": "slow-subscriber", "stalled_periods": stallPeriods, "call": how, "counter_at_return": atReturn.Counter, "counter_afterwards": after.Counter})
		}
	}))
}

var _ = model.FunctionTypeDeviceDiagnosisHeartbeatData

// ---------------------------------------------------------------------------------------------
// TestSeveralSubscribersPerPeer: one remote device may supervise the heartbeat with several of its
// features (an entity each with a DeviceDiagnosis client). A subscriber is a remote FEATURE: every
// refresh is notified to each of them, also when they sit behind the same connection.
func TestSeveralSubscribersPerPeer(t *testing.T) {
	rapid.Check(t, world.Prop(func(t *rapid.T) {
		nPeers := rapid.IntRange(1, 2).Draw(t, "peers")
		nFeat := rapid.IntRange(2, 3).Draw(t, "subscribedFeaturesPerPeer")
		periods := rapid.IntRange(3, 6).Draw(t, "periods")
		// a long-lived connection: it has carried this many notifications of another feature before
		prior := rapid.SampledFrom([]int{0, 0, 40, 99, 100, 130}).Draw(t, "notificationsCarriedBefore")
		const timeout = 100 * time.Millisecond
		base := runtimeGoroutines()
		w := world.New()
		ent := w.AddLocalEntity([]uint{1}, model.EntityTypeTypeCEM, timeout)
		meas := w.AddLocalFeature(ent, world.FeatSpec{Type: model.FeatureTypeTypeMeasurement, Role: model.RoleTypeServer,
			Funcs: []world.FuncSpec{{Fn: model.FunctionTypeMeasurementListData, Read: true}}})
		var tree []world.EntSpec
		for e := 1; e <= nFeat; e++ {
			tree = append(tree, world.EntSpec{Addr: []uint{uint(e)}, Type: model.EntityTypeTypeCEM, Feats: []world.FeatSpec{
				{ID: 1, Type: model.FeatureTypeTypeDeviceDiagnosis, Role: model.RoleTypeClient},
				{ID: 2, Type: model.FeatureTypeTypeMeasurement, Role: model.RoleTypeClient}}})
		}
		type key struct {
			peer int
			dest string
		}
		var mu sync.Mutex
		got := map[key][]uint64{}
		var peers []*world.Peer
		for i := 0; i < nPeers; i++ {
			i := i
			p := w.AddPeer(fmt.Sprintf("ski-%d", i+1), fmt.Sprintf("d:_r:peer%d", i+1), tree)
			p.Cap.SetOnWrite(func(raw []byte) {
				var s seen
				d, ok := decodeHeartbeatNotify(raw, &s)
				if !ok || !s.HasCtr {
					return
				}
				mu.Lock()
				got[key{i, d}] = append(got[key{i, d}], s.Counter)
				mu.Unlock()
			})
			peers = append(peers, p)
		}
		// the server feature comes with the heartbeat function: the heartbeat runs from here on
		feat := w.AddLocalFeature(ent, world.FeatSpec{Type: model.FeatureTypeTypeDeviceDiagnosis, Role: model.RoleTypeServer,
			Funcs: []world.FuncSpec{{Fn: fnHeartbeat, Read: true}}})
		hm := ent.HeartbeatManager()
		defer func() {
			func() {
				defer func() { _ = recover() }()
				hm.StopHeartbeat()
			}()
			for _, p := range peers {
				p.Cap.SetOnWrite(nil)
			}
			world.WaitGoroutines(base, 500*time.Millisecond)
		}()
		for _, p := range peers {
			for e := 1; e <= nFeat; e++ {
				if !p.CallOK(world.SubscribeCall(p.FA([]uint{uint(e)}, 1), feat.Address(), model.FeatureTypeTypeDeviceDiagnosis)) {
					t.Fatalf("harness: subscription of %s entity [%d] not granted", p.Ski, e)
				}
			}
		}
		if prior > 0 {
			p := peers[0]
			if !p.CallOK(world.SubscribeCall(p.FA([]uint{1}, 2), meas.Address(), model.FeatureTypeTypeMeasurement)) {
				t.Fatalf("harness: measurement subscription not granted")
			}
			donePrior := make(chan struct{})
			go func() {
				defer close(donePrior)
				for i := 0; i < prior; i++ {
					id := model.MeasurementIdType(i)
					meas.SetData(model.FunctionTypeMeasurementListData, &model.MeasurementListDataType{MeasurementData: []model.MeasurementDataType{{MeasurementId: &id}}})
				}
			}()
			if where, detail, inconclusive := world.AwaitOrDiagnose(donePrior, 20*time.Second, 5*time.Minute, 1); where != "" {
				world.Fail(t, "C16/deadlock/notifications-on-long-lived-connection/"+where, "%d notifications of another feature on the subscriber's connection: the stack did %s", prior, detail)
			} else if inconclusive {
				t.Fatalf("inconclusive: %s", detail)
			}
		}
		mu.Lock()
		got = map[key][]uint64{} // what was notified while the subscriptions were being made is not judged
		mu.Unlock()
		// a ticker of the harness with the heartbeat's period tells whether the machine lets timers tick
		var control atomic.Int32
		stopControl := make(chan struct{})
		go func() {
			tk := time.NewTicker(timeout)
			defer tk.Stop()
			for {
				select {
				case <-stopControl:
					return
				case <-tk.C:
					control.Add(1)
				}
			}
		}()
		time.Sleep(time.Duration(periods)*timeout + timeout/2)
		close(stopControl)
		stopped := make(chan struct{})
		go func() { defer close(stopped); hm.StopHeartbeat() }()
		if where, detail, inconclusive := world.AwaitOrDiagnose(stopped, 20*time.Second, 5*time.Minute, 1); where != "" {
			world.Fail(t, "C16/deadlock/stop/"+where, "StopHeartbeat: the stack did %s", detail)
		} else if inconclusive {
			t.Fatalf("inconclusive: %s", detail)
		}
		time.Sleep(timeout + 20*time.Millisecond) // a refresh in flight
		mu.Lock()
		defer mu.Unlock()
		union := map[uint64]bool{}
		for _, l := range got {
			for _, c := range l {
				union[c] = true
			}
		}
		if len(union) < periods-2 && int(control.Load()) >= periods-1 {
			world.Fail(t, "C16/period/no-refresh-while-running", "the heartbeat ran for %d periods of %v (a ticker of the harness ticked %d times meanwhile), the subscribers were notified of %d refreshes; the connection of peer 1 had carried %d notifications of another feature before", periods, timeout, control.Load(), len(union), prior)
		}
		if len(union) == 0 {
			world.Record(world.Hash("several-subscribers-discarded", nPeers, nFeat, periods), false, "several-subscribers/discarded-no-refresh")
			return
		}
		for i, p := range peers {
			for e := 1; e <= nFeat; e++ {
				d := p.FA([]uint{uint(e)}, 1).String()
				have := map[uint64]int{}
				for _, c := range got[key{i, d}] {
					have[c]++
				}
				for c := range union {
					if have[c] != 1 {
						world.Fail(t, "C16/notify/subscriber-of-same-device-missed", "%d peers with %d subscribed DeviceDiagnosis client features each; refresh #%d was notified %d times to %s of %s (once to every subscribed feature); notified counters per subscriber: %v", nPeers, nFeat, c, have[c], d, p.Ski, got)
					}
				}
			}
		}
		world.Record(world.Hash("several-subscribers", nPeers, nFeat, periods, prior), true, fmt.Sprintf("several-subscribers/features-per-peer-%d", nFeat), fmt.Sprintf("several-subscribers/connection-carried-%d-notifications-before", prior))
		if world.WantSample() {
			world.Sample(map[string]any{"check": "several-subscribers-per-peer", "peers": nPeers, "subscribed_features_per_peer": nFeat, "refreshes_seen": len(union)})
		}
	}))
}

func runtimeGoroutines() int { return runtime.NumGoroutine() }

// decodeHeartbeatNotify returns the destination feature of a heartbeat notification.
func decodeHeartbeatNotify(raw []byte, s *seen) (dest string, ok bool) {
	var d model.Datagram
	if json.Unmarshal(raw, &d) != nil {
		return "", false
	}
	h := d.Datagram.Header
	if h.CmdClassifier == nil || *h.CmdClassifier != model.CmdClassifierTypeNotify || len(d.Datagram.Payload.Cmd) == 0 || h.AddressDestination == nil {
		return "", false
	}
	data := d.Datagram.Payload.Cmd[0].DeviceDiagnosisHeartbeatData
	if data == nil {
		return "", false
	}
	decodeData(data, s)
	return h.AddressDestination.String(), true
}
