#!/usr/bin/env python3
"""Create a mutant patch without touching /repo:  tools/mkmut.py NAME FILE OLD NEW  (first occurrence of OLD in FILE is replaced).
The diff against /repo HEAD is written to /verif/mutants/NAME.diff; the mutant must compile."""
import os, subprocess, sys
name, path, old, new = sys.argv[1:5]
wt = "/tmp/mkmut_wt"
subprocess.run(["git", "-C", "/repo", "worktree", "remove", "--force", wt], capture_output=True)
subprocess.run(["rm", "-rf", wt])
subprocess.run(["git", "-C", "/repo", "worktree", "add", "--detach", wt, "HEAD"], capture_output=True, check=True)
try:
    p = os.path.join(wt, path)
    s = open(p).read()
    if old not in s:
        print(name, "PATTERN NOT FOUND"); sys.exit(1)
    open(p, "w").write(s.replace(old, new, 1))
    b = subprocess.run(["go", "build", "./..."], cwd=wt, capture_output=True, text=True)
    if b.returncode != 0:
        print(name, "DOES NOT COMPILE", b.stderr[:500]); sys.exit(1)
    d = subprocess.run(["git", "diff"], cwd=wt, capture_output=True, text=True).stdout
    open(f"/verif/mutants/{name}.diff", "w").write(d)
    print(name, "ok", len(d))
finally:
    subprocess.run(["git", "-C", "/repo", "worktree", "remove", "--force", wt], capture_output=True)
