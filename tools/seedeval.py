#!/usr/bin/env python3
"""Confirm an independently seeded change and run the checks against it.
   tools/seedeval.py <PROPERTY> <src_dir> <seed_id> [extra check ids...]
 1. scratch worktree of /repo HEAD: demo passes without the patch;
 2. patch applied: module builds (also with -tags verif), the unedited suite passes, the demo fails;
 3. tools/mutcheck.sh with the patch for the property's check (and extra ids);
 4. stores /verif/seeded/<seed_id>/{patch.diff,demo_test.go,notes.md,meta.json}.
"""
import json, os, re, shutil, subprocess, sys
pid, src, sid = sys.argv[1:4]
extra = sys.argv[4:]
ENV = dict(os.environ, GOFLAGS="-mod=mod", GOPROXY="off", GOSUMDB="off", GOTOOLCHAIN="local")
wt = f"/tmp/seedeval_{sid}"
def sh(cmd, cwd=None, timeout=900):
    p = subprocess.run(cmd, shell=True, cwd=cwd, env=ENV, stdout=subprocess.PIPE, stderr=subprocess.STDOUT, text=True, timeout=timeout)
    return p.returncode, p.stdout
sh(f"git -C /repo worktree remove --force {wt}; rm -rf {wt}")
# SEED_BASE: confirm the delivery on the commit it was made for (a later repair in /repo can change what
# the demonstration relies on); the checks are always run against HEAD + patch
base = os.environ.get("SEED_BASE", "HEAD")
rc, out = sh(f"git -C /repo worktree add --detach {wt} {base}")
assert rc == 0, out
demo = open(os.path.join(src, "demo_test.go")).read()
head = "\n".join(demo.split("\n")[:12])
m = re.search(r"([\w./-]+_test\.go)", head)
dest = m.group(1) if m else "spine/seed_demo_test.go"
dest = dest.lstrip("/")
if dest.startswith("tmp/"):
    dest = re.sub(r"^tmp/seed_C\d+/", "", dest)
m = re.search(r"(go test[^\n]*)", head)
cmd = m.group(1).strip() if m else f"go test -vet=off -count=1 -run . ./{os.path.dirname(dest)}/"
cmd = re.sub(r"cd\s+\S+\s*&&\s*", "", cmd)
cmd = re.split(r"\s{2,}\(|\s+#|\s+//", cmd)[0].strip()
res = {"property": pid, "seed_id": sid, "demo_location": dest, "demo_command": cmd, "confirmed_on": base}
shutil.copyfile(os.path.join(src, "demo_test.go"), os.path.join(wt, dest))
rc, out = sh(cmd, cwd=wt)
res["demo_without_patch"] = "pass" if rc == 0 else "FAIL"
res["demo_without_patch_tail"] = out[-400:]
rc, out = sh(f"git apply {os.path.join(src, 'patch.diff')}", cwd=wt)
res["patch_applies"] = rc == 0
if rc == 0:
    rc, out = sh("go build ./... && go build -tags verif ./...", cwd=wt)
    res["builds"] = rc == 0
    os.rename(os.path.join(wt, dest), os.path.join(wt, dest + ".off"))
    rc, out = sh("go test -vet=off -count=1 ./...", cwd=wt)
    if rc != 0 and "TestTimePeriodType" in out:
        # the suite's TestTimePeriodType compares a remaining duration across a wall-clock second
        # boundary and fails now and then on a loaded machine, with or without a patch: once more
        res["suite_first_attempt_tail"] = out[-300:]
        rc, out = sh("go test -vet=off -count=1 ./...", cwd=wt)
    res["suite_with_patch"] = "pass" if rc == 0 else "FAIL"
    if rc != 0:
        res["suite_tail"] = out[-600:]
    os.rename(os.path.join(wt, dest + ".off"), os.path.join(wt, dest))
    rc, out = sh(cmd, cwd=wt)
    res["demo_with_patch"] = "fails" if rc != 0 else "PASSES"
    res["demo_with_patch_tail"] = out[-600:]
sh(f"git -C /repo worktree remove --force {wt}; rm -rf {wt}")
confirmed = res.get("patch_applies") and res.get("builds") and res.get("suite_with_patch") == "pass" and res.get("demo_with_patch") == "fails" and res["demo_without_patch"] == "pass"
res["confirmed"] = bool(confirmed)
checks = {}
if confirmed:
    for cid in [pid] + extra:
        rc, out = sh(f"/verif/tools/mutcheck.sh {os.path.join(src, 'patch.diff')} {cid}", timeout=3600)
        checks[cid] = out.strip().split("\n")[-1]
res["checks_quick"] = checks
out_dir = f"/verif/seeded/{sid}"
os.makedirs(out_dir, exist_ok=True)
for f in ("patch.diff", "demo_test.go", "notes.md"):
    if os.path.exists(os.path.join(src, f)):
        shutil.copyfile(os.path.join(src, f), os.path.join(out_dir, f))
json.dump(res, open(os.path.join(out_dir, "meta.json"), "w"), indent=1)
print(json.dumps({k: v for k, v in res.items() if not k.endswith("_tail")}, indent=1))
