#!/bin/bash
# Evaluate the deliveries of a seeding round: tools/seedround.sh <round> <first seed number> "C01:C03" "C02" ...
#   round 3 delivers into /tmp/seed3_<ID>_out/{1,2}; they become seeded/<ID>-<first>, <ID>-<first+1>.
round=$1; first=$2; shift 2
for spec in "$@"; do
  id=${spec%%:*}; extra=""
  [[ "$spec" == *:* ]] && extra=$(echo "${spec#*:}" | tr ',' ' ')
  for n in 1 2; do
    sid=$id-$((n+first-1))
    src=/tmp/seed${round}_${id}_out/$n
    [[ -f $src/patch.diff ]] || { echo "$sid missing"; continue; }
    python3 /verif/tools/seedeval.py $id $src $sid $extra > /tmp/se_$sid.out 2>&1
    echo "$sid: $(grep -A6 '"checks_quick"' /tmp/se_$sid.out | tr -d '\n' | cut -c1-400) $(grep -o '"confirmed": [a-z]*' /tmp/se_$sid.out)"
  done
done
