#!/bin/bash
# Sensitivity tool: run checks against a modified scratch copy of /repo without touching /repo.
#   tools/mutcheck.sh revert:<commit> C04 C11      # revert a fix commit
#   tools/mutcheck.sh /path/to/patch.diff C09      # apply a patch
# Prints for each check: DETECTED (exit 1 + VIOLATION), MISSED (exit 0) or INCONCLUSIVE.
set -u
what="$1"; shift
# every scratch copy fills the shared Go build cache with objects that are never used again (92 GB after four
# rounds of seeded changes - too big for the sandbox to be copied by `vp check`): keep at least 100 GB free
avail=$(df --output=avail -k / | tail -1)
if [[ "$avail" -lt 100000000 ]]; then go clean -cache >/dev/null 2>&1; fi
tag=$(echo "$what" | tr -c 'A-Za-z0-9' '_' | tail -c 40)
wt=/tmp/mutwt_$tag
vf=/tmp/mutverif_$tag
git -C /repo worktree remove --force "$wt" >/dev/null 2>&1
rm -rf "$wt" "$vf"
git -C /repo worktree add --detach "$wt" HEAD >/dev/null 2>&1 || { echo "worktree failed"; exit 2; }
if [[ "$what" == revert:* ]]; then
  (cd "$wt" && git revert --no-edit "${what#revert:}" >/dev/null 2>&1) || { echo "revert failed"; git -C /repo worktree remove --force "$wt"; exit 2; }
else
  (cd "$wt" && git apply "$what") || { echo "patch does not apply"; git -C /repo worktree remove --force "$wt"; exit 2; }
fi
mkdir -p "$vf"
rsync -a --exclude .git --exclude .work --exclude replays --exclude evidence /verif/ "$vf"/
sed -i "s#=> /repo#=> $wt#" "$vf/harness/go.mod"
rc_all=0
for id in "$@"; do
  out=$(cd "$vf" && VERIF_SEED=${VERIF_SEED:-1} ./check "$id" --tier ${TIER:-quick} 2>&1); rc=$?
  if [[ $rc -eq 1 ]] && grep -q "^VIOLATION property=$id" <<<"$out"; then
    echo "$id DETECTED: $(grep -m1 -o 'VERIF-FAIL sig=[^ ]*' <<<"$out")"
  elif [[ $rc -eq 0 ]]; then echo "$id MISSED"; rc_all=1
  else echo "$id INCONCLUSIVE (rc=$rc): $(tail -3 <<<"$out" | tr '\n' ' ')"; rc_all=1; fi
  [[ -n "${VERBOSE:-}" ]] && echo "$out" | tail -40
done
git -C /repo worktree remove --force "$wt" >/dev/null 2>&1
rm -rf "$wt" "$vf"
exit $rc_all
