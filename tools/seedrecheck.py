#!/usr/bin/env python3
"""Re-run the property's quick check against every seeded change with the CURRENT /verif and record
the result in seeded/<id>/meta.json (field checks_quick_current); prints a table."""
import glob, json, os, subprocess, sys
NEEDS = {
 "C01-1": "feature lookup cache keyed by the address as written vs canonical: request with device-less destination, RemoveEntity, same request again",
 "C01-2": "approval path: >=2 approval callbacks and two writes of one peer pending together, interleaved approvals (C12's territory; C01 registers no approval callbacks)",
 "C02-1": "list type with >=2 numeric keys, merge update with crossing key tuples such as (1,0) and (0,1)",
 "C02-2": "partial+selector whose data item repeats the identifier, applied to a list that is empty at that moment",
 "C03-1": "bound writer writes a function of the feature type that was never announced (no Operations entry)",
 "C03-2": "one remote entity holding two adjacent bindings, then entity removal / disconnect, re-announce / reconnect, write without new binding",
 "C04-1": "refused identifier-less partial write on a list mixing changeable and protected elements, inspected afterwards",
 "C04-2": "delete filter with elements and no selector on a list with a protected element",
 "C05-1": "discovery reply announcing feature [0]/0 with another role or type, then any later message that publishes an event (event bus left locked)",
 "C05-2": "message with ackRequest:true, no msgCounter and a destination: panic inside the deferred recover path",
 "C06-1": "partial notification with several entries where a removal of an unknown entity is not the last entry",
 "C06-2": "announce entity, peer subscribes, same entity announced again, entity removed",
 "C07-1": "entity whose address is a proper prefix of another entity's address ([1] and [1,1])",
 "C07-2": ">=2 goroutines in GetOrAddFeature for one type/role all missing the first lookup",
 "C08-1": "subscribe/delete with omitted server device after the fan-out list of that feature was cached by a data change",
 "C08-2": "wrong-type subscription request involving a special-role (NodeManagement) feature",
 "C09-1": "two different peers' bind requests both between the unlocked check and the locked re-check",
 "C09-2": "one client bound to server features with the same feature number in two local entities; bind, bind, delete",
 "C10-1": "another peer's subscribe call landing between copy and store of a concurrent teardown",
 "C10-2": "approval callback, bind, write left pending, unbind (or entity removed), disconnect, then time-out / late approval",
 "C11-1": "FeatureRemote.UpdateData(persist=false) through a selector / identifier-less / delete-elements path",
 "C11-2": "identifier-less update on items whose fields are already set, with a snapshot taken before",
 "C12-1": ">=2 callbacks, two overlapping writes of one peer: W1 times out while W2 holds part of its approvals, the rest arrive before W2's own time-out",
 "C12-2": "a denial that loses the race for the outcome (simultaneous denials, or denial exactly when the timer fires)",
 "C13-1": "a Request overlapping a Notify / Write / Reply / Result on the same connection",
 "C13-2": ">21 different unanswered requests, a late response for an evicted one, the same request again",
 "C14-1": "two responses with one reference handled simultaneously / registration between lookup and delete",
 "C14-2": "a rejected reply referencing a counter with a registered callback, then the accepted reply",
 "C15-1": "an unsubscription (re-entrant or concurrent) while a publication is being dispatched",
 "C15-2": "two overlapping publications with a core-level handler (second Publish returns before its core handling)",
 "C16-1": "AddEntity; RemoveEntity; StartHeartbeat; RemoveEntity (or RemoveEntity of an entity never added)",
 "C16-2": "StartHeartbeat while running (old goroutine wipes the new stop channel)",
 "C17-1": "lock-order inversion DeviceLocal.mux / SubscriptionManager.mux: entity add/remove concurrent with a disconnect of a subscribed peer",
 "C17-2": "in-place compaction of DeviceRemote.entities while another goroutine iterates a list from Entities()",
 "C18-1": "the one CmdType field whose Go name differs in case from its function (hvacSystemFunctionSetpointRelationListData)",
 "C18-2": "time period with open start and an absolute end time in the past",
 "C19-1": "negative values with a zero integer part (-0.5)",
 "C19-2": "durations of 31 days and more",
 "C20-1": "SetUseCaseAvailability concurrent with a registry change on another entity",
 "C20-2": "an entity with two actors whose use-case items are adjacent, then remove-all / RemoveEntity",
 # round 2
 "C01-3": "inbound result with ackRequest:true and errorNumber to an existing local feature from an announced peer feature",
 "C01-4": "two peers with identical numbering, peer A bound, unbound peer B writes from the equally numbered client feature (accepted wrongly: decided by C03's statement, C01 only judges the shape of the response to what the stack decided)",
 "C02-3": "delete filter whose selector matches several items (non-identifier element or part of a multi-key identifier)",
 "C02-4": "by-identifier merge hitting an item that has a list-valued element the update does not mention",
 "C03-3": "two peers with identical numbering, one bound, the other writes",
 "C03-4": "denied write without ackRequest (or ackRequest:false)",
 "C04-3": "one write with a delete filter on a protected element and a partial filter with selector on a changeable one",
 "C04-4": "selector / identifier-less partial write whose item carries the changeability flag with another value",
 "C05-3": "second discovery reply of a known peer with a different device address (self-deadlock on muxValues)",
 "C05-4": "approved write (approval callback registered) that cannot be applied: partial filter with selector and an empty list payload",
 "C06-3": "peer B's bind call completing between snapshot and write-back of RemoveBindingsForEntity for peer A (needs the event publication inside the window to take time)",
 "C06-4": "one partial notification with removed then added entry for the same known entity address",
 "C07-3": ">=2 peers subscribed to node management whose device address is unknown (subscribed before their discovery data) or equal",
 "C07-4": "features numbered in one order and added in another, then one more creation",
 "C08-3": "subscribe P1, subscribe P2, unsubscribe P1, subscribe P3 (id reuse after the list shrank)",
 "C08-4": "local entity with sub-entity, server features with equal feature number, peer subscribed to the parent's feature, data change on the child's",
 "C09-3": ">=2 bindings, delete of a non-newest one, another bind (id reuse)",
 "C09-4": "second bind on a bound feature with the server device address omitted",
 "C10-3": "late discovery reply of a removed peer while another peer is connected and the removed peer had answered the first use-case read",
 "C10-4": "two peers with the same entity number, local client bookkeeping at both, entity removal notification whose entityAddress has no device",
 "C11-3": "full notify/reply/write whose event payload is kept, then any persisted partial update",
 "C11-4": "delete filter whose elements name a nested sub element of an item that has it",
 "C12-3": ">=2 callbacks, >=2 peers with overlapping pending writes with equal msgCounter",
 "C12-4": "a write arriving while the verdict for another pending write is between its two lock acquisitions",
 "C13-3": "notifications interleaved with >=100 other outbound messages",
 "C13-4": "identical request issued again by code reacting to the response before ProcessCmd returns (ack write in progress)",
 "C14-3": "accepted reply with a partial / delete filter referencing a counter with a registered callback, Data inspected",
 "C14-4": ">=2 distinct result callbacks created by the same code on one feature",
 "C15-3": "the same new handler subscribed from >=2 goroutines at once",
 "C15-4": ">=2 core handlers (several local devices in one process), >=1 application handler, unsubscription of a core handler that is not the last one, then a publication",
 "C16-3": "subscriber whose SHIP writer stalls for >1 period, Stop / RemoveEntity meanwhile",
 "C16-4": "time-out <= 2 s that is no multiple of 100 ms, period compared with the announced value",
 "C17-3": ">20 different unanswered requests on one connection while a response with msgCounterReference comes in",
 "C17-4": "two different pending writes on one feature: time-out of W1 fires while the verdict for W2 is given",
 "C18-3": "read with selector / elements or partial reply (function element present and empty)",
 "C18-4": "one filter carrying selectors and elements together",
 "C19-3": "negative values with 14 integer digits",
 "C19-4": "time.Time values in a location with non-zero offset",
 "C20-3": "nested entity [1,1] below [1] using the same actor",
 "C20-4": "re-add of an existing use case that differs in availability only",
}
EXTRA = {"C01-2": ["C12"], "C01-4": ["C03"], "C03-3": ["C01"], "C12-4": ["C17"], "C17-4": ["C12"]}
rows = []
only = set(sys.argv[1:])
for d in sorted(glob.glob('/verif/seeded/*/meta.json')):
    if only and os.path.basename(os.path.dirname(d)) not in only:
        continue
    m = json.load(open(d))
    sid, pid = m['seed_id'], m['property']
    out = subprocess.run(['/verif/tools/mutcheck.sh', os.path.join(os.path.dirname(d), 'patch.diff'), pid], capture_output=True, text=True).stdout.strip().split('\n')[-1]
    m['checks_quick_first_pass'] = m.get('checks_quick_first_pass', m.get('checks_quick', {}))
    m['checks_quick_current'] = {pid: out}
    for x in EXTRA.get(sid, []):
        m['checks_quick_current'][x] = subprocess.run(['/verif/tools/mutcheck.sh', os.path.join(os.path.dirname(d), 'patch.diff'), x], capture_output=True, text=True).stdout.strip().split('\n')[-1]
    m['breaks_property'] = pid
    m['needs_to_manifest'] = NEEDS.get(sid, '')
    m['what_was_run'] = ("tools/seedeval.py: scratch worktree of /repo HEAD; demo passes without the patch; with the patch the module builds (also -tags verif), "
                         "the unedited suite passes and the demo fails; then tools/mutcheck.sh <patch> <property> (quick tier, VERIF_SEED=1) on a scratch copy of /verif")
    json.dump(m, open(d, 'w'), indent=1)
    rows.append((sid, out))
    print(sid, out, flush=True)
