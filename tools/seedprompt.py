#!/usr/bin/env python3
"""Write the task file of one seeding sub-agent:  tools/seedprompt.py <round> <PROPERTY>  > /tmp/seed<round>_<ID>.task.txt

The file holds ONLY the text of the property (title, statement, quantifier), the working rules, and one line per change
already delivered for this property in earlier rounds (what it needed to manifest) so that the agent looks elsewhere.
Nothing of the checks, the harness, DESIGN.md or the evidence goes into it.
"""
import glob, json, os, sys
rnd, pid = sys.argv[1], sys.argv[2]
here = os.path.dirname(os.path.dirname(os.path.abspath(__file__)))
prop = None
for l in open(os.path.join(here, "properties.jsonl")):
    p = json.loads(l)
    if p["id"] == pid:
        prop = p
assert prop, pid
import re
_src = open(os.path.join(here, "tools", "seedrecheck.py")).read()
NEEDS = eval(re.search(r"NEEDS = (\{.*?\n\})", _src, re.S).group(1))
used = []
for m in sorted(glob.glob(os.path.join(here, "seeded", pid + "-*", "meta.json"))):
    d = json.load(open(m))
    n = d.get("needs_to_manifest") or NEEDS.get(d.get("seed_id", ""), "")
    if n:
        used.append(n)
wt = f"/tmp/seed{rnd}_{pid}"
out = f"/tmp/seed{rnd}_{pid}_out"
print(f"""You are helping to evaluate a test framework for the Go module github.com/enbility/spine-go (an implementation of the
EEBUS SPINE protocol). A scratch git worktree of the repository is at {wt} . Work ONLY inside {wt} and {out} ;
do not read or write any other directory of this machine except the Go toolchain's own caches (in particular never /repo, never
/verif, never other /tmp/seed* directories).

Every go command needs this environment (there is no network):
  export GOFLAGS=-mod=mod GOPROXY=off GOSUMDB=off GOTOOLCHAIN=local

THE PROPERTY (this is all you are given about what is checked):

  id: {prop['id']}
  title: {prop['title']}
  statement: {prop['statement']}
  quantified over: {prop['quantifier']['text']}

YOUR TASK: deliver TWO different, independent changes to the code of spine-go (non-test .go files only), each of which
  (a) BREAKS the property above - some clause of the statement is false for the changed code for some input / history / schedule
      inside the quantified domain;
  (b) still compiles (`go build ./...` and `go build -tags verif ./...`) and passes the existing test suite UNEDITED:
      `go test -vet=off -count=1 ./...` must be green with the change (if model/TestTimePeriodType fails once, run it again - it
      is known to be flaky across a second boundary);
  (c) is REALISTIC - it looks like something a maintainer could have written in a refactoring, an optimisation, a "simplification",
      a bug fix for something else, a clean-up - not sabotage, no magic constants, no special-casing of one input, no time bombs, no
      random behaviour, no checks for test environments;
  (d) needs something SPECIFIC to manifest: a particular interleaving, a fault or disconnect at a particular point, a multi-step
      sequence of operations, an unusual but legal input, a rarely used API path, or two cooperating sites that each look fine
      alone. NOT something that ordinary use exposes at once.
  (e) is DIFFERENT IN KIND from the changes already delivered for this property in earlier rounds. What those needed in order to
      manifest is listed below - do not deliver anything that needs the same thing, look in other corners of the statement and of
      the code (other clauses, other entry points, other data types, other life-cycle moments, other API functions that reach
      the same state):
""")
for u in used:
    print("        - " + u)
print(f"""
For each change also write a DEMONSTRATION: one Go test file that PASSES on the unchanged worktree and FAILS with the change
applied. It may use only the public API and the module's existing test helpers / mocks; it must be deterministic enough to fail in
at least 9 of 10 runs with the change and pass 10 of 10 runs without it (for schedule-dependent changes loop inside the test).
The FIRST LINE of the demonstration file must be a comment of exactly this form:
  // Copy to <path relative to the repository root>_test.go ; run: go test -vet=off -count=1 -run <TestName> ./<package dir>/

DELIVER into {out}/1/ and {out}/2/ (create the directories), each containing exactly:
  patch.diff     `git diff` of the change against the worktree's HEAD - non-test source files only, WITHOUT the demonstration file
  demo_test.go   the demonstration (first line as above)
  notes.md       which clause breaks, root cause, what is needed for it to manifest (ONE precise sentence under the heading
                 "## What is needed for it to manifest"), and what you ran

Before you deliver, verify each change yourself, from a clean worktree (`git checkout -- . && git clean -fdq`):
  1. demo copied in, no patch: demo passes (run it 3 times);
  2. `git apply patch.diff`: `go build ./... && go build -tags verif ./...` ok; suite green with the demo file moved away; demo fails;
  3. `git checkout -- .` and remove the demo file again so that the next change starts clean.
Leave the worktree clean (no patch applied, no demo file) when you finish. Report in your final message, per change, one line:
what was changed, which clause it breaks, what it needs to manifest. Do not deliver a change you could not verify.
""")
