#!/usr/bin/env python3
"""Print the markdown table of DESIGN §10.6 from seeded/*/meta.json."""
import glob, json, re
def sig(v):
    m = re.search(r"sig=(\S+)", v)
    return f"`{m.group(1)}`" if m else ("missed" if "MISSED" in v else v)
print("| seed | needs to manifest | first pass | current quick check (signature) |")
print("|------|-------------------|------------|----------------------------------|")
for d in sorted(glob.glob('/verif/seeded/*/meta.json')):
    m = json.load(open(d))
    pid = m['property']
    first = m.get('checks_quick_first_pass', m.get('checks_quick', {})).get(pid, '')
    first = 'detected' if 'DETECTED' in first else ('missed' if 'MISSED' in first else first or 'n/a')
    cur = m.get('checks_quick_current', {})
    own = sig(cur.get(pid, ''))
    others = [f"{k}: {sig(v)}" for k, v in cur.items() if k != pid]
    if others:
        own += " (" + "; ".join(others) + ")"
    print(f"| {m['seed_id']} | {m.get('needs_to_manifest','')} | {first} | {own} |")
