# Per-property run configuration for ./check (see DESIGN.md §4 for the meaning of each run).
# kind: rapid (sharded by -rapid.seed), plain (deterministic Go test, sharded through VERIF_SHARD),
#       fuzz (native go fuzzing, thorough only).  race: build with -race.

Q, T = "quick", "thorough"

PROPS = {
    "C19": {
        "pkg": "c19",
        "rule": ("rapid draws decimals k*10^-d (d 0..4; k dense in +-300000 or random up to 1e13), floats of "
                 "magnitude <1e14 across exponents, durations n*100ms up to 3276 days, instants year 1..9999, "
                 "relative-end time periods; sweeps enumerate k in +-300000 x d (stride 1 in thorough) and "
                 "durations up to 55h. Non-trivial: decimal whose float*10^d is not the integer k exactly / "
                 "duration with >=2 non-zero units / every float, instant, period. Distinct by value."),
        "assumptions": ["exact rational arithmetic (math/big) is the oracle for scaled numbers",
                        "durations above 3276 days are outside the period type's exact range and not generated",
                        "time-period checks allow 1.2 s (1 s stated + scheduling slack)",
                        "every legal xs:duration spelling of a whole number of seconds is a textual form of that duration (text to duration only)"],
        "runs": [
            {"name": "decimal", "run": "TestScaledDecimal", "kind": "rapid", "checks": {Q: 400000, T: 64000000}, "shards": {Q: 4, T: 16}, "env": {"VERIF_HASH_MOD": {Q: 1, T: 64}}},
            {"name": "float", "run": "TestScaledFloat", "kind": "rapid", "checks": {Q: 200000, T: 48000000}, "shards": {Q: 2, T: 16}, "env": {"VERIF_HASH_MOD": {Q: 1, T: 64}}},
            {"name": "duration", "run": "TestDuration", "kind": "rapid", "checks": {Q: 150000, T: 32000000}, "shards": {Q: 2, T: 16}, "env": {"VERIF_HASH_MOD": {Q: 1, T: 64}}},
            {"name": "instant", "run": "TestInstant", "kind": "rapid", "checks": {Q: 20000, T: 16000000}, "shards": {Q: 2, T: 8}, "env": {"VERIF_HASH_MOD": {Q: 1, T: 64}}},
            {"name": "timeperiod", "run": "TestTimePeriod", "kind": "rapid", "checks": {Q: 5000, T: 2400000}, "shards": {Q: 2, T: 8}},
            {"name": "sweepdec", "run": "TestSweepDecimals", "kind": "plain", "shards": {Q: 2, T: 16}, "env": {"VERIF_STRIDE": {Q: 37, T: 1}, "VERIF_HASH_MOD": {Q: 1, T: 64}}},
            {"name": "sweepdur", "run": "TestSweepDurations", "kind": "plain", "shards": {Q: 2, T: 16}, "env": {"VERIF_STRIDE": {Q: 101, T: 1}, "VERIF_HASH_MOD": {Q: 1, T: 64}}},
            {"name": "regression", "run": "TestRegression", "kind": "plain"},
        ],
    },
    "C02": {
        "pkg": "c02",
        "rule": ("rapid draws a list function (quick: 14 representative types, thorough: all 83 Updater types), a store "
                 "(remote feature fed by reply / notify on the wire, local feature through UpdateData / SetData) and a history of "
                 "1..6 updates over the identifier domain {0..3} in every filter shape; after each update DataCopy is compared "
                 "with the reference fold (multiset of item JSON), identifiers must be unique, leading numeric keys ordered, and the "
                 "same update is applied a second time (idempotence). The sweep applies every shape once to every type on both stores. "
                 "Non-trivial: the history contains a filtered update that changes a non-empty list. Distinct by (function, store, "
                 "sequence of shape/hit-or-miss)."),
        "assumptions": ["reference fold written from the SPINE cmdOption table (harness/refmodel/fold.go) is the oracle",
                        "inputs every caller respects: unique identifiers per update, all-or-no key fields, full updates in identifier order, "
                        "full-key scalar selectors matching at most one item, partial+selector carries exactly one identifier-less item",
                        "selector/elements fields are located by the XSD JSON naming convention, not by the eebus tags under test"],
        "runs": [
            {"name": "fold", "run": "TestFold", "kind": "rapid", "checks": {Q: 20000, T: 2400000}, "shards": {Q: 4, T: 16}},
            {"name": "sweep", "run": "TestSweep", "kind": "plain", "shards": {Q: 2, T: 16}, "args": {Q: ["-rapid.checks=3"], T: ["-rapid.checks=40"]}},
            {"name": "model", "run": "TestModelUpdateList", "kind": "rapid", "checks": {Q: 8000, T: 1600000}, "shards": {Q: 2, T: 16}, "env": {"VERIF_TIER": "thorough"}},
            {"name": "periods", "run": "TestUnmentionedPeriods", "kind": "rapid", "checks": {Q: 6000, T: 600000}, "shards": {Q: 2, T: 8}},
            {"name": "concurrent", "run": "TestConcurrentRestrictedUpdates", "kind": "plain", "shards": {Q: 2, T: 8}, "env": {"VERIF_ROUNDS": {Q: 300, T: 8000}}},
        ],
    },
    "C18": {
        "pkg": "c18",
        "rule": ("the complete grid of 127 registered functions x 13 command shapes (read, read+selector, read+elements, read+both, reply, "
                 "reply partial, notify/write full, partial, partial+selector, delete+selector, delete+elements, delete+selector+elements, "
                 "delete+partial selectors) is enumerated; per cell rapid draws selector / elements / payload values reflectively "
                 "(types located by the XSD JSON naming convention); each command is built with the public API, encoded, decoded and "
                 "checked for function, payload type, filter kinds and deep-equal selectors/elements. Values: every pointer-to-struct "
                 "field type of CmdType and FilterType round-trips through JSON. Wire: RequestRemoteData / UpdateData as seen on a "
                 "peer's connection. Non-trivial: grid cell (counted once per cell) that carries data, a selector or elements; value with >=3 "
                 "non-nil fields; wire case with a filter. Distinct by (function, shape) resp. JSON text."),
        "assumptions": ["a time period whose remaining duration exceeds 3276 days is beyond what the duration text of the period type represents exactly (same limit as in C19): labelled, not judged",
                        "nil and empty lists are identified; a relative-only time period is compared by remaining duration within 1.2 s",
                        "electricalConnectionCharacteristicData shares its elements field with the list function; asserted for the list function only",
                        "native fuzzing (thorough) cannot be seed-pinned; its saved input is the reproducible unit"],
        "runs": [
            {"name": "grid", "run": "TestCmdGrid", "kind": "plain", "shards": {Q: 4, T: 16}, "args": {Q: ["-rapid.checks=5"], T: ["-rapid.checks=300"]}},
            {"name": "factory", "run": "TestFactoryTables", "kind": "plain"},
            {"name": "tags", "run": "TestTagCoherence", "kind": "plain"},
            {"name": "values", "run": "TestValueRoundTrip", "kind": "rapid", "checks": {Q: 40000, T: 2400000}, "shards": {Q: 4, T: 16}},
            {"name": "wire", "run": "TestWire", "kind": "rapid", "checks": {Q: 12000, T: 600000}, "shards": {Q: 4, T: 16}},
            {"name": "fuzz", "run": "FuzzCmdJSON", "kind": "fuzz", "tiers": [T], "fuzztime": "60s", "timeout": 600},
        ],
    },
    "C04": {
        "pkg": "c04",
        "rule": ("for the three functions with a changeability flag (loadControlLimitListData, setpointListData, "
                 "deviceConfigurationKeyValueListData): rapid draws an existing list of 1..4 elements with flags in {true,false,absent} "
                 "and an authorised, acknowledged remote write of every shape (full, partial with ids, id-less, selector, delete+selector, "
                 "delete+elements, delete+selector+elements, delete+partial; written items with or without a flag); the write is sent by a "
                 "bound peer to a fresh world and judged by the validity predicate P1..P5, P7 over (before, write, result, after) and by "
                 "the metamorphic relation P6 (same write on a world without the unaddressed elements / with their flags toggled). The sweep "
                 "enumerates all lists over ids 0..n-1 x 3 flag states x all shapes x target ids. Non-trivial: the list mixes >=2 flag "
                 "states and the write addresses >=1 element. Distinct by (function, shape, flag pattern, addressed set, verdict)."),
        "assumptions": ["a full (filter-less) write addresses the whole list; items of a write that match nothing may be appended or ignored; "
                        "the verdict of a combined delete+partial that re-creates an element is not fixed",
                        "P4 compares the addressed changeable elements with the reference fold, ignoring the flag field itself"],
        "runs": [
            {"name": "protect", "run": "TestWriteProtection", "kind": "rapid", "checks": {Q: 24000, T: 1920000}, "shards": {Q: 4, T: 16}},
            {"name": "sweep", "run": "TestSweep", "kind": "plain", "shards": {Q: 4, T: 16}, "env": {"VERIF_SWEEP_LEN": {Q: 3, T: 4}}},
            {"name": "periods", "run": "TestUnaddressedPeriods", "kind": "rapid", "checks": {Q: 6000, T: 600000}, "shards": {Q: 2, T: 8}},
            {"name": "besidelocal", "run": "TestWriteVsLocalUpdate", "kind": "plain", "shards": {Q: 2, T: 8}, "env": {"VERIF_ROUNDS": {Q: 1500, T: 40000}}},
        ],
    },
    "C11": {
        "pkg": "c11",
        "rule": ("rapid draws a keyed list function (quick: 12 types, thorough: all), populates a local server feature and a remote "
                 "feature, retains DataCopy results of both and the payloads of data-change events together with their JSON text, and "
                 "applies 1..5 further updates of every filter shape from every origin (local UpdateData / SetData, remote write incl. "
                 "rejected ones, reply, notify, FeatureRemote.UpdateData(persist=false)); after every step each retained value must still "
                 "encode to its recorded text, and after a failed or non-persisting update DataCopy of both stores must be unchanged "
                 "(nil == empty). Use-case data of NodeManagement with use-case operations as later updates. Non-trivial: a filtered "
                 "update hits a non-empty store while snapshots are watched. Distinct by (function, sequence of origin/shape)."),
        "assumptions": ["a snapshot 'changes' iff its canonical JSON changes (values contain no relative-only time periods)",
                        "'no data' (nil) and an empty value are not distinguished for the unchanged-store clause"],
        "runs": [
            {"name": "snapshots", "run": "TestSnapshots", "kind": "rapid", "checks": {Q: 20000, T: 1920000}, "shards": {Q: 4, T: 16}},
            {"name": "usecase", "run": "TestUseCaseSnapshots", "kind": "rapid", "checks": {Q: 10000, T: 600000}, "shards": {Q: 2, T: 8}},
            {"name": "remoteusecase", "run": "TestRemoteUseCaseSnapshots", "kind": "rapid", "checks": {Q: 6000, T: 400000}, "shards": {Q: 2, T: 8}},
            {"name": "otherfunctions", "run": "TestNonPersistingOtherFunctions", "kind": "rapid", "checks": {Q: 6000, T: 400000}, "shards": {Q: 2, T: 8}},
        ],
    },
    "C08": {
        "pkg": "c08",
        "rule": ("rapid state machine over a world with 3 peers using identical entity/feature numbers, 3 local server features (two list "
                 "functions each), a local client feature and NodeManagement: subscribe / unsubscribe calls (valid, duplicate, wrong role, "
                 "wrong type, unknown entity/feature, device omitted on either side, same addresses from another peer), data changes "
                 "through SetData, UpdateData in every filter shape, a failing UpdateData, accepted and rejected remote writes. After every "
                 "call: verdict = grant rule of the statement, registry = reference set, distinct ids, one event per success. After every "
                 "data change the complete outbound trace of all peers must be exactly one notify per subscribed client feature with "
                 "payload = DataCopy. Non-trivial: >=2 peers subscribed to the changed feature at a data change. Distinct by "
                 "(operation sequence with outcomes, final registry)."
                 " Free-running mix: three peers, each with a subscription request or delete for its own server feature at the same moment; every request takes effect and a data change on each server feature notifies exactly the peer whose subscription is in force."),
        "assumptions": ["special role is accepted on both sides of a subscription (as in the repository's NodeManagement fixture)",
                        "a feature of the type Generic stands for any feature type on either side of a request (function_data_factory.go, checkRoleAndType); client addresses naming a foreign device are not generated",
                        "whether a remote write is accepted is observed from its result, not predicted (C03/C04 own the gate)"],
        "runs": [
            {"name": "subs", "run": "TestSubscriptions", "kind": "rapid", "checks": {Q: 8000, T: 400000}, "shards": {Q: 4, T: 16}, "steps": {Q: 20, T: 40}},
            {"name": "mix", "run": "TestSubscriptionMixStress", "kind": "plain", "shards": {Q: 4, T: 16}, "env": {"VERIF_ROUNDS": {Q: 1500, T: 12000}}},
        ],
    },
    "C09": {
        "pkg": "c09",
        "rule": ("rapid state machine (same world as C08, a fourth server feature of an already used type so that one client can hold "
                 "several bindings): bind / unbind calls (valid, second binding on a bound feature by the same or another peer, wrong role / "
                 "type, unknown addresses, omitted device, same addresses from another peer, right client with another server) checked "
                 "against a reference registry with the single-binding rule, BindingsOnFeature <= 1 after every step, ids, events. "
                 "Schedules: all interleavings of 2 and 3 bind requests for one server feature arriving on different connections are "
                 "enumerated over the yield point between the single-binding check and the insertion; plus free-running contention "
                 "rounds. Non-trivial: a client holds >=2 bindings or two clients contend for one feature; schedule: >=2 requests inside "
                 "the window together. Distinct by (operation sequence with outcomes, final registry) / schedule choice vector."
                 "Free-running mix (shared with C03): three peers, each with a bind or a binding delete for its own server feature at the same moment; every request takes effect, the registry holds exactly the granted and not deleted bindings, and a following write of each peer is served or refused accordingly."),
        "assumptions": ["special role accepted on both sides; a feature of the type Generic stands for any feature type (function_data_factory.go, checkRoleAndType)",
                        "schedule enumeration is exhaustive only over the instrumented window (build tag verif); elsewhere stress"],
        "runs": [
            {"name": "bindings", "run": "TestBindings", "kind": "rapid", "checks": {Q: 8000, T: 320000}, "shards": {Q: 4, T: 16}, "steps": {Q: 20, T: 40}},
            {"name": "interleavings", "run": "TestBindInterleavings", "kind": "plain"},
            {"name": "stress", "run": "TestBindStress", "kind": "plain", "shards": {Q: 2, T: 16}, "env": {"VERIF_ROUNDS": {Q: 300, T: 12000}}},
            {"name": "mix", "run": "TestRegistryMixStress", "kind": "plain", "shards": {Q: 4, T: 16}, "env": {"VERIF_ROUNDS": {Q: 1500, T: 12000}}},
        ],
    },
    "C03": {
        "pkg": "c03",
        "rule": ("rapid state machine over 3 peers with identical numbering and 4 local server features (one writable and one read-only list "
                 "function each): random writes (any peer, any client feature, any server, writable or read-only function, every filter shape, "
                 "ack on/off), bind-then-write and unbind-then-write composites (valid, from a foreign peer, for another client, device "
                 "omitted), disconnect+reconnect-then-write, entity-removed(-and-re-added)-then-write, subscriptions, local SetData. Each "
                 "write is judged against what the binding registry and the announced operations report immediately before it: unauthorised "
                 "=> data unchanged, no notify on any connection, no data-change event, exactly one error result; authorised => success "
                 "with data = fold of the write, one notify per subscription, one event, result iff ack - or an error with no effect at all "
                 "(never for a full write). Non-trivial: a peer has both an accepted and a rejected write in the history. Distinct by "
                 "operation sequence with outcomes."
                 "Free-running mix (shared with C09): three peers, each with a bind or a binding delete for its own server feature at the same moment; every request takes effect, the registry holds exactly the granted and not deleted bindings, and a following write of each peer is served or refused accordingly."),
        "assumptions": ["the registry's own correctness is C09/C10's subject: the gate is judged relative to HasLocalFeatureRemoteBinding (cross-checked with Bindings(peer))",
                        "no message is injected on a removed connection (cannot happen in SHIP); disappearance of the device is tested by reconnecting the same SKI"],
        "runs": [
            {"name": "gate", "run": "TestWriteGate", "kind": "rapid", "checks": {Q: 8000, T: 400000}, "shards": {Q: 4, T: 16}, "steps": {Q: 20, T: 40}},
            {"name": "mix", "run": "TestRegistryMixStress", "kind": "plain", "shards": {Q: 4, T: 16}, "env": {"VERIF_ROUNDS": {Q: 1500, T: 12000}}},
        ],
    },
    "C10": {
        "pkg": "c10",
        "rule": ("rapid state machine over 3 peers with identical numbering: subscriptions and bindings by the peers, subscriptions/bindings of local "
                 "client features to the peers' server features (client-side bookkeeping), writes left pending on a feature whose approval callback "
                 "never answers (time-out 30 ms), data changes; then RemoveRemoteDeviceConnection - also issued from inside another peer's writer while "
                 "that peer's message is processed - or an entity-removed notification. Before/after snapshots per peer: all and only the removed "
                 "device's (entity's) registry entries and bookkeeping are gone, one remove event per entry plus one device/entity event, none for other "
                 "devices, device no longer resolvable; every other peer's snapshot is identical and a read by it is answered; the removed "
                 "connection's writer stays silent until after the approval time-out and further data changes. Non-trivial: >=2 peers hold state on the "
                 "same local feature at a removal. Distinct by operation sequence."
                 " Directed scenario (shared with C06): removal of a peer's entity / connection while the event bus is kept busy by another peer's announcement (stalled SHIP writer) and a third peer's bind / subscribe / delete call arrives in between; afterwards exactly the removed entity's entries are gone."),
        "assumptions": ["real time is used only to let the 30 ms approval time-out expire (sleep 55 ms); no timing is asserted",
                        "on a removed connection only messages that ask for no answer are injected (late discovery reply, notification, result)"],
        "runs": [
            {"name": "teardown", "run": "TestTeardown", "kind": "rapid", "checks": {Q: 4000, T: 240000}, "shards": {Q: 8, T: 16}, "steps": {Q: 20, T: 40}},
            {"name": "stress", "run": "TestTeardownStress", "kind": "plain", "shards": {Q: 4, T: 16}, "env": {"VERIF_ROUNDS": {Q: 150, T: 1500}}},
            {"name": "removal", "run": "TestRemovalDuringPublication", "kind": "rapid", "checks": {Q: 48, T: 4800}, "shards": {Q: 4, T: 16}, "shrinktime": "5s"},
        ],
    },
    "C14": {
        "pkg": "c14",
        "rule": ("rapid state machine over 2-3 ordinary local features and 2 peers: registrations of response callbacks from four distinct literal sites "
                 "(several per counter, several counters, duplicates), result callbacks, deliveries of replies and results with matching / other "
                 "feature's / unknown / repeated references, accepted and rejected replies, zero and non-zero error numbers, registrations from a second "
                 "goroutine concurrent with deliveries; reference model (feature, counter) -> callbacks consumed on the first accepted delivery; the "
                 "invocation log is compared after the goroutine barrier (exactly once, right reference, right remote feature object, payload by unique "
                 "serial). Non-trivial: an accepted delivery that is repeated, reaches the wrong feature, or falls in a concurrent window. Distinct by "
                 "abstract history hash."),
        "assumptions": ["callback identity is the code pointer: distinct function literals model distinct callbacks",
                        "a message without msgCounterReference reaches a feature only through HandleMessage (the SHIP path drops it - C05's subject)"],
        "runs": [
            {"name": "callbacks", "run": "TestCallbacks", "kind": "rapid", "checks": {Q: 6000, T: 600000}, "shards": {Q: 4, T: 16}, "steps": 30},
            {"name": "sites", "run": "TestSites", "kind": "plain"},
            {"name": "scenario", "run": "TestScenario", "kind": "plain"},
            {"name": "sameCallback", "run": "TestSameCallbackRegisteredConcurrently", "kind": "plain", "shards": {Q: 4, T: 16}, "env": {"VERIF_ROUNDS": {Q: 200, T: 3000}}},
        ],
    },
    "C15": {
        "pkg": "c15",
        "rule": ("rapid-generated plans on spine.Events: subscribe / subscribe-again / unsubscribe of 1-4 application handlers, publications of uniquely "
                 "tagged payloads from 1-4 goroutines (sequential and concurrent phases), handlers that (un)subscribe themselves or others, publish "
                 "nested events or call into the stack; every operation is logged with start/end stamps and judged by the interval oracle (must / "
                 "must-not / either, never twice); watchdog on every Publish. Core-first: with a connected peer, the core handler's datagrams are on "
                 "the writer before an application handler starts handling the device-add event and when the injecting call returns; the same with "
                 "2-3 local devices in the process (several core handlers that subscribe with their first and unsubscribe with their last connection). Non-trivial: a "
                 "must-deliver pair exists and an (un)subscription lies between two publications or re-entrancy was executed. Distinct by plan hash."
                 " Levels: sequential histories of subscribe / unsubscribe (level, handler) - through the public API and through the build-tag hook for the core level - and publications with 1-3 harness handlers; per publication the deliveries (handler, level seen from the goroutine) must equal the subscriptions in force; non-trivial: one handler on both levels and a publication after an unsubscription."),
        "assumptions": ["a Publish that does not return within 10 s with goroutines parked in spine-go locks is a deadlock; a bare time-out is inconclusive"],
        "runs": [
            {"name": "bus", "run": "TestBusHistories", "kind": "rapid", "checks": {Q: 8000, T: 1000000}, "shards": {Q: 4, T: 16}},
            {"name": "corefirst", "run": "TestCoreFirst", "kind": "rapid", "checks": {Q: 4000, T: 600000}, "shards": {Q: 4, T: 16}},
            {"name": "multicore", "run": "TestSeveralCoreHandlers", "kind": "rapid", "checks": {Q: 3000, T: 400000}, "shards": {Q: 4, T: 16}},
            {"name": "independent", "run": "TestHandlersRunIndependently", "kind": "rapid", "checks": {Q: 2000, T: 200000}, "shards": {Q: 2, T: 16}},
            {"name": "levels", "run": "TestHandlerLevels", "kind": "rapid", "checks": {Q: 4000, T: 400000}, "shards": {Q: 2, T: 16}},
            {"name": "oracle", "run": "TestOracle", "kind": "plain"},
            {"name": "coreconcurrent", "run": "TestCoreFirstConcurrent", "kind": "plain", "shards": {Q: 2, T: 8}, "env": {"VERIF_ROUNDS": {Q: 300, T: 3000}}},
        ],
    },
    "C20": {
        "pkg": "c20",
        "rule": ("rapid state machine over 4 local entity slots (incl. nested addresses) x 3 actors x 4 use-case names: add (new / re-add with other "
                 "version, sub-revision, scenarios, availability), remove (known/unknown), set-availability, remove-all, has, RemoveEntity and re-add of "
                 "an entity, against a reference map; after every step HasUseCaseSupport for every triple of the domain, DataCopy and the reply to a "
                 "peer's read must equal the model and other entities' entries must be untouched. Concurrency: free-running goroutines each working on "
                 "its own entity (drawn workloads x 20 rounds, 16 operation pairs x 100 rounds) and exhaustive enumeration of all interleavings of the "
                 "read-modify-write cycles over the yield point between copy and store (16 pairs + one 3-thread workload). Non-trivial: a removing or "
                 "overwriting operation while >=2 entities hold use cases; >=2 goroutines with registry-changing operations; schedule with >=2 threads "
                 "reaching the window. Distinct by abstract operation sequence / workload / schedule."),
        "assumptions": ["operations on different entities commute, so the expected final registry of a concurrent workload is well defined",
                        "concurrent tests need GOMAXPROCS >= 2"],
        "runs": [
            {"name": "registry", "run": "TestUseCaseRegistry", "kind": "rapid", "checks": {Q: 4000, T: 150000}, "shards": {Q: 4, T: 16}, "steps": {Q: 30, T: 40}},
            {"name": "concurrent", "run": "TestUseCaseConcurrent", "kind": "rapid", "checks": {Q: 60, T: 1800}, "shards": {Q: 1, T: 2}},
            {"name": "pairs", "run": "TestUseCaseConcurrentPairs", "kind": "plain", "env": {"VERIF_C20_PAIR_ROUNDS": {Q: 40, T: 400}}},
            {"name": "interleavings", "run": "TestUseCaseInterleavings", "kind": "plain"},
        ],
    },
    "C12": {
        "pkg": "c12",
        "rule": ("rapid draws 1..3 approval callbacks, 1..3 authorised writes pending together from 2 peers (the single binding is handed over before "
                 "each write; equal message counters on different peers occur), a verdict in {approve, deny, silent} per (write, callback), a delivery "
                 "order (permutation) and a subset of verdicts delivered after the 25 ms time-out. Each write is judged from its own verdict row: applied "
                 "(and success result iff ack) iff every callback approved before the time-out, otherwise exactly one error result and unchanged data; "
                 "each callback invoked exactly once per write with that write's message. A case whose early deliveries took longer than half the "
                 "time-out is discarded and counted. Window test: the deciding delivery is parked at the yield point between timer lookup and stop "
                 "until the time-out's error result has been seen (all placements: callbacks x parked delivery x verdict). Free-running: 20-120 writes "
                 "delivered back to back on the bound peer's connection while 1-3 callbacks give their verdicts (drawn pattern of approve / deny / "
                 "silent) at once on the goroutines the stack started for them, an unbound peer writes and unrelated peers disconnect; exactly one "
                 "outcome per write, lock cycles diagnosed from two goroutine dumps. Deadline: with a silent callback and approvals as late as 0.6-0.8 T "
                 "the time-out's error result is on the wire at 1.5 T after the arrival (two control timers of the harness decide whether the case "
                 "can be judged). Reconnect: a write pending with some approvals, the connection removed, the device connected again and writing "
                 "with the same msgCounter (optionally a late verdict for the old message): the new write is judged by its own verdicts. Non-trivial: >=2 writes "
                 "pending together or a verdict after / racing the time-out. Distinct by (callbacks, verdict rows, delivery order)."),
        "assumptions": ["real time: 25 ms approval time-out, event-driven waiting up to 1 s; slow-harness cases are discarded, never judged",
                        "pending writes are authorised when they arrive; the binding may change afterwards"],
        "runs": [
            {"name": "matrix", "run": "TestApprovalMatrix", "kind": "rapid", "checks": {Q: 1600, T: 48000}, "shards": {Q: 8, T: 16}, "shrinktime": "15s"},
            {"name": "staggered", "run": "TestStaggeredWrites", "kind": "rapid", "checks": {Q: 480, T: 24000}, "shards": {Q: 8, T: 16}, "shrinktime": "15s"},
            {"name": "window", "run": "TestApprovalVsTimeout", "kind": "plain"},
            {"name": "concurrent", "run": "TestConcurrentWriters", "kind": "rapid", "checks": {Q: 96, T: 6400}, "shards": {Q: 8, T: 16}, "shrinktime": "5s"},
            {"name": "deadline", "run": "TestTimeoutFromArrival", "kind": "rapid", "checks": {Q: 24, T: 1600}, "shards": {Q: 8, T: 16}, "shrinktime": "5s"},
            {"name": "reconnect", "run": "TestApprovalsAcrossReconnect", "kind": "rapid", "checks": {Q: 160, T: 16000}, "shards": {Q: 4, T: 16}, "shrinktime": "5s"},
        ],
    },
    "C13": {
        "pkg": "c13",
        "rule": ("rapid state machine on a bare Sender (NewSender + capture writer) and on a connected peer's sender: Request (3 destinations x 4 commands "
                 "x classifiers), responses (direct and as inbound datagrams) with known / unknown / already answered references, Notify, Reply, Result, "
                 "Write, Subscribe, Bind, Unsubscribe, Unbind, DatagramForMsgCounter lookups, bursts of >20 / >100 unanswered requests and notifies; the "
                 "reference model is the complete wire log (counters increasing, withheld only while an identical request is unanswered and returning its "
                 "counter, different requests always written, response re-enables, last 100 notifies retrievable with the written datagram); bounded "
                 "memory for N in {50,200,800}; 205 enumerated notify-window scenarios; concurrent rounds with 8-16 goroutines (distinct counters, count "
                 "= successful calls). Non-trivial: a withheld request, an eviction, or a lookup between notifies. Distinct by full history hash."),
        "assumptions": ["classifier, sender address and ack are not part of 'identical request' (same destination, same command)",
                        "'withheld' is never required (the statement is an only-if)"],
        "runs": [
            {"name": "sequential", "run": "TestSenderSequential", "kind": "rapid", "checks": {Q: 2000, T: 75000}, "shards": {Q: 4, T: 16}},
            {"name": "concurrent", "run": "TestSenderConcurrent", "kind": "rapid", "checks": {Q: 200, T: 7500}, "shards": {Q: 1, T: 4}},
            {"name": "bounded", "run": "TestSenderBounded", "kind": "rapid", "checks": {Q: 40, T: 900}, "shards": {Q: 1, T: 4}},
            {"name": "window", "run": "TestNotifyWindow", "kind": "plain"},
        ],
    },
    "C01": {
        "pkg": "c01",
        "rule": ("rapid state machine: per case a local device with 3 drawn feature types (all 30 usable types over a run), each as server (functions "
                 "announced with drawn read/write flags, drawn preset data) and client on two entities, plus NodeManagement; 2 peers with identical "
                 "numbering announcing a client and a server feature per type. Each step is one datagram: classifier in {read, reply, notify, write, call, "
                 "result} x a function registered for the addressed feature type (NodeManagement: discovery, use case, destination list, the four "
                 "subscription/binding calls) x ack x destination in {server, client, special, unknown feature, unknown entity} x destination device in "
                 "{local, omitted, wrong} x any announced source feature (2/3 the counterpart). After each step the complete outbound trace of all peers is "
                 "judged: addressing of every reply/result, count by classifier rule, fixed outcomes for reads (payload = DataCopy before), and "
                 "consistency of acceptance (success/no result => effect visible, error => data, registries and event log unchanged). Non-trivial: every "
                 "step (reaches ProcessCmd with a resolvable source). Distinct by (classifier, feature type, function, ack, destination class, role, outcome)."),
        "assumptions": ["replies and results always carry a msgCounterReference and results a resultData.errorNumber (well-formedness; their absence is C05's subject)",
                        "nodeManagementSubscriptionData / BindingData are outside the domain (not in the factory's list for NodeManagement)",
                        "for a readable-typed but not announced function a reply with the stored data or an error result are both accepted"],
        "runs": [
            {"name": "responses", "run": "TestResponses", "kind": "rapid", "checks": {Q: 12000, T: 480000}, "shards": {Q: 4, T: 16}, "steps": {Q: 12, T: 20}},
        ],
    },
    "C07": {
        "pkg": "c07",
        "rule": ("rapid state machine over local configurations: 1-4 entities (incl. nested addresses) x features of drawn types and roles created "
                 "through AddFeature (with de-duplication) and GetOrAddFeature x function sets with read/write flags x descriptions; histories of "
                 "add/remove/re-add entity, add feature/function, use-case action, discovery reads from 2-3 peers of which some subscribed to "
                 "NodeManagement. A harness-side model of the configuration is compared with every discovery reply (entities, features, type, role, "
                 "description, operations incl. partial flag, as sets), announced addresses must resolve to the very feature object, each AddEntity / "
                 "RemoveEntity must give every subscribed peer exactly one partial notify describing the entity (added with features / removed without) "
                 "and nothing to the others, feature ids never repeat. Schedules: all interleavings of 2 and 3 concurrent GetOrAddFeature calls on one "
                 "entity over the yield point between lookup miss and creation (238 schedules), plus barrier-started stress. Non-trivial: a checked read "
                 "with >=2 application entities after a mutation that followed an earlier read; schedule with >=2 callers inside the window. Distinct by "
                 "rendered history / schedule."),
        "assumptions": ["the heartbeat function is never added (C16); entity descriptions are not asserted (not announced by the stack)",
                        "re-adding an existing function uses its original flags"],
        "runs": [
            {"name": "tree", "run": "TestLocalTree", "kind": "rapid", "checks": {Q: 3200, T: 240000}, "shards": {Q: 4, T: 16}, "steps": {Q: 30, T: 60}},
            {"name": "interleavings", "run": "TestGetOrAddInterleavings", "kind": "plain"},
            {"name": "stress", "run": "TestGetOrAddStress", "kind": "plain", "env": {"VERIF_ROUNDS": {Q: 300, T: 2000}}},
            {"name": "regression", "run": "TestGetOrAddRegressionF23a", "kind": "plain"},
            {"name": "numbering", "run": "TestNumberingStress", "kind": "plain", "shards": {Q: 2, T: 16}, "env": {"VERIF_ROUNDS": {Q: 400, T: 6000}}},
            {"name": "addfeature", "run": "TestAddFeatureStress", "kind": "plain", "shards": {Q: 2, T: 16}, "env": {"VERIF_ROUNDS": {Q: 4000, T: 100000}}},
        ],
    },
    "C05": {
        "pkg": "c05",
        "rule": ("(a) structured mutation: per case 1..5 messages for a world with 2 peers (subscriptions, bindings, an approval callback that approves every "
                 "write; one case in five delivers to the first peer before its discovery data): each is a valid datagram of one of 19 kinds (discovery "
                 "reply / partial add / partial remove / full notify, discovery and use-case read, use-case reply, subscription and binding request / delete "
                 "calls, read with and without filters, reply / notify / write with every filter shape, write through the approval path, result, and a "
                 "well-typed but arbitrary command with any payload and filter fields) in which 0..3 nodes of the JSON tree, chosen uniformly over all nodes, "
                 "are dropped, nulled, emptied, retyped or replaced by unknown / inconsistent values. Oracle: every HandleShipPayloadMessage returns (recover = "
                 "crash, 10 s watchdog = wedge), the application's approval goroutine does not panic, and afterwards a valid detailed-discovery read from "
                 "each peer gets exactly one reply. (c, thorough) native coverage-guided fuzzing of raw bytes with the repository's JSON fixtures, generated "
                 "valid datagrams and hostile constants as seed corpus. Non-trivial: a mutated message still decodes and carries a source address and a "
                 "command (reaches ProcessCmd). Distinct by (templates, mutated paths)."),
        "assumptions": ["a process abort (panic in a goroutine the stack started) is attributed by the driver to the case being run (saved before it is delivered)",
                        "the probe read is sent from the peer's NodeManagement feature [0]/0"],
        "runs": [
            {"name": "mutated", "run": "TestMutatedMessages", "kind": "rapid", "checks": {Q: 16000, T: 640000}, "shards": {Q: 8, T: 16}, "shrinktime": "20s"},
            {"name": "fuzz", "run": "FuzzPayload", "kind": "fuzz", "tiers": [T], "fuzztime": "180s", "timeout": 900},
            {"name": "fuzzstructured", "run": "FuzzMutated", "kind": "fuzz", "tiers": [T], "fuzztime": "120s", "timeout": 900},
        ],
    },
    "C06": {
        "pkg": "c06",
        "rule": ("rapid state machine with 2 peers (same numbering): initial discovery reply, then partial notifications with 1-3 entity entries each "
                 "added (0-3 features with drawn types, roles, descriptions, operations incl. partial flags) or removed, full notifications, later replies "
                 "(current set plus additions); entity addresses from {[1],[2],[1,1],[1,2],[2,1]}; repeated adds with unchanged features, removal of "
                 "unknown entities, add+remove in one notification; subscriptions / bindings by the peer and client-side bookkeeping of a local client "
                 "feature so that the removal cascade is observable. A reference tree is compared after every message with Entities / Entity / "
                 "FeatureByAddress / Operations of BOTH peers; the event delta must be exactly one add per appeared and one remove per disappeared entity "
                 "for the right SKI; after a removal exactly the registry entries and bookkeeping inside the removed entity of that device are gone. "
                 "Non-trivial: a notification changed the entity set after the initial reply. Distinct by sequence of (peer, kind, entity-set delta)."
                 " Directed scenario (shared with C10): removal of a peer's entity / connection while the event bus is kept busy by another peer's announcement (stalled SHIP writer) and a third peer's bind / subscribe / delete call arrives in between; afterwards exactly the removed entity's entries are gone."),
        "assumptions": ["feature-set changes of existing entities, later replies omitting known entities and full notifications without entity [0] are not generated (DESIGN §4 C06 NA)",
                        "whether subscribe / bind calls are granted is not asserted here (C08/C09)"],
        "runs": [
            {"name": "tree", "run": "TestRemoteTree", "kind": "rapid", "checks": {Q: 4000, T: 360000}, "shards": {Q: 4, T: 16}, "steps": {Q: 30, T: 50}, "shrinktime": "15s"},
            {"name": "removal", "run": "TestRemovalDuringPublication", "kind": "rapid", "checks": {Q: 48, T: 4800}, "shards": {Q: 4, T: 16}, "shrinktime": "5s"},
        ],
    },
    "C16": {
        "pkg": "c16",
        "rule": ("real-time rapid histories: heartbeat timeout from {100,200,300 ms} (rarely 2.1/2.3 s), DeviceDiagnosis server feature with the heartbeat "
                 "function added before or after 1-2 peers subscribed, drawn sequences of Start / Stop / IsHeartbeatRunning / wait k periods / RemoveEntity; "
                 "observed through the notifies on every subscriber's writer and a 10 ms DataCopy sampler; invariant over the history: counters strictly "
                 "increasing, every refresh on every subscribed connection, timestamps within 2 s, mean gap <= 1.5 x timeout + 50 ms while running, refresh "
                 "count <= window/period + 2, after Stop / RemoveEntity at most one further refresh then silence for 3 periods, IsHeartbeatRunning = model, no "
                 "panic. A case in which the harness sampler overslept by > 50 ms is discarded (counted). Schedules: Start||Stop, Stop||Stop, Start||Start and "
                 "3-thread mixes over the two yield points, enumerated (quick: capped and every 8th observed in real time; thorough: exhaustive), each followed "
                 "by a final Stop and 4 periods of observation (no surviving stream). Hammer: 8 free-running goroutines. Non-trivial: a Start/Stop/RemoveEntity "
                 "hits a running heartbeat; schedule with >=2 threads parked. Distinct by (timeout, subscribers, operation sequence) / schedule. Configurations: "
                 "entities created with time-outs that are no multiple of 100 ms (130..290 ms): mean gap of 8-12 notified refreshes <= announced time-out x 1.3 "
                 "+ 10 ms, with a control ticker of the harness deciding whether the case can be judged; a subscriber whose connection is stalled for 2-6 "
                 "periods while Stop / RemoveEntity is called: counter advances by at most one after the call returned; 1-2 peers with 2-3 subscribed "
                 "DeviceDiagnosis client features each: every refresh is notified once to every subscribed feature."),
        "assumptions": ["timeouts are at least 100 ms (below that the announced duration rounds to 0 and time.NewTicker(0) aborts - outside the stated range)",
                        "timing tolerances from DESIGN A.6; a doubled period at 100 ms lies on the tolerance boundary"],
        "runs": [
            {"name": "histories", "run": "TestHeartbeatHistories", "kind": "rapid", "checks": {Q: 48, T: 3008}, "shards": {Q: 6, T: 16}, "shrinktime": "30s"},
            {"name": "histories-tz", "run": "TestHeartbeatHistories", "kind": "rapid", "checks": {Q: 16, T: 512}, "shards": {Q: 4, T: 16}, "shrinktime": "30s", "env": {"VERIF_TZ_OFFSET_MIN": {Q: 330, T: -210}}},
            {"name": "interleavings", "run": "TestHeartbeatInterleavings", "kind": "plain", "shards": {Q: 8, T: 16}},
            {"name": "hammer", "run": "TestHeartbeatHammer", "kind": "plain", "shards": {Q: 1, T: 4}, "env": {"VERIF_ROUNDS": {Q: 200, T: 500}}},
            {"name": "regressions", "run": "TestScheduleRegressions", "kind": "plain"},
            {"name": "scenarios", "run": "TestSequentialScenarios", "kind": "plain"},
            {"name": "announced", "run": "TestAnnouncedPeriod", "kind": "rapid", "checks": {Q: 16, T: 640}, "shards": {Q: 8, T: 16}, "shrinktime": "10s"},
            {"name": "slowsubscriber", "run": "TestSlowSubscriber", "kind": "rapid", "checks": {Q: 16, T: 640}, "shards": {Q: 8, T: 16}, "shrinktime": "10s"},
            {"name": "subscribers", "run": "TestSeveralSubscribersPerPeer", "kind": "rapid", "checks": {Q: 16, T: 640}, "shards": {Q: 8, T: 16}, "shrinktime": "10s"},
        ],
    },
    "C17": {
        "pkg": "c17",
        "rule": ("rapid generates workloads that are run free on real goroutines in a -race build: 2-3 connection goroutines (one per peer, as SHIP delivers) "
                 "each injecting 20-60 (thorough: up to 150) inbound messages of 14 kinds (reads, notifies, replies, writes incl. the approval path with running "
                 "timers, subscription and binding calls, results, entity add/remove notifications; one connection is also removed and set up again in "
                 "between) and 2-7 application goroutines issuing 22 kinds of public API calls (SetData / UpdateData in every filter shape, encoding "
                 "DataCopy results, use-case changes, AddEntity / RemoveEntity, GetOrAddFeature / AddFunctionType, descriptions, SubscribeToRemote / "
                 "BindToRemote / RequestRemoteData, heartbeat start/stop, event (un)subscription, notify lookups, registry and remote-tree reads). Oracle: every "
                 "report of the race detector is normalised to the pair of innermost spine-go frames and mapped to an unsynchronised state; a workload that "
                 "does not finish within 60 s with >=2 goroutines parked in locks inside spine-go is a deadlock (otherwise inconclusive). Non-trivial: >=3 "
                 "inbound and >=3 application operation kinds were executed by the workload. Distinct by workload hash."),
        "assumptions": ["free-running schedules: a race found is real, absence in N workloads is not a proof; reports are not reproducible or shrinkable",
                        "open findings are keyed by state: a report is known iff both of its spine-go frames are functions listed for one state"],
        "runs": [
            {"name": "workloads", "run": "TestWorkloads", "kind": "rapid", "race": True, "checks": {Q: 96, T: 6400}, "shards": {Q: 4, T: 16}, "env": {"VERIF_C17_OPS": {Q: 60, T: 150}}, "timeout": {Q: 900, T: 7200}},
            {"name": "storms", "run": "TestStorms", "kind": "plain", "race": True, "shards": {Q: 2, T: 8}, "env": {"VERIF_ROUNDS": {Q: 4, T: 25}}, "timeout": {Q: 900, T: 7200}},
        ],
    },
}

# what the generators were widened by after the fifth round of seeded changes (appended to the rules above)
_RULE_ADDENDA = {
    "C03": " Rediscovery: discovery data of entities the stack already knows is processed again (second reply, 'added' notification) between the other operations; nothing disappears by it.",
    "C04": " Full writes and the stored list come in any element order; the two filters of a combined write come in either order.",
    "C05": " The peers announce a sub-entity; in one of seven environments the first peer's connection has been removed before its messages arrive (still in flight); after every case the application changes the data of both server features on its own goroutine (a panic or a call that does not return there is the stack's), and a removed peer connects again.",
    "C06": " In a fifth of the cases (and after a quarter of the reconnects) a peer's initial discovery reply is late: its notifications are applied before it (entity [0] is compared from the reply on).",
    "C07": " AddFeature stress: 4 AddFeature and 4 GetOrAddFeature calls for one type and role leave a spinning rendezvous together; one feature of that type and role results and everybody gets that one.",
    "C08": " Overlapping changes: the data of a second server feature changes inside the write of the first notification of another change (harness-owned schedule); per changed feature exactly its subscribers are notified with its data.",
    "C11": " In a third of the histories the observer stays quiet: it obtains nothing further while the updates run (the reference fold stands in for the stored list when updates are drawn), so only the stack's own accesses touch the stores between the data sets being handed out and the later updates.",
    "C12": " A quarter of the writes carry a destination address without device part; in the reconnect test the first write may run into its time-out before the connection goes; cases in which the machine delivers the verdicts too slowly are discarded, never judged.",
    "C13": " Overlap: further notifications run to completion while one notification is held inside the connection's write (state machine action and 54 enumerated scenarios around a full cache).",
    "C14": " A third of the error results carry no description (identified by a unique error number). A constructed-valid reply that a registered callback is waiting for must not be refused.",
    "C16": " Slow subscriber: the connection may stay slow after the stall (every write takes 1.25 periods), so that a tick is due whenever a refresh has been notified.",
    "C17": " Storm outbound-requests-on-two-connections: one local client feature subscribes / binds to two peers at once against entity removals.",
    "C18": " The tolerance for relative period ends applies to payload periods only; the timestamp interval of a selector is compared exactly.",
    "C20": " A third of the re-created entities are not handed to the device at once (use cases are declared before device.AddEntity).",
}
for _k, _v in _RULE_ADDENDA.items():
    PROPS[_k]["rule"] += _v

# ... and after the sixth round
_RULE_ADDENDA_6 = {
    "C01": " Operation changeBetweenReads: a peer reads a list function, the application changes it (SetData, or UpdateData with a filter of any shape), a peer reads again - every reply carries the data held at that moment. In half of the cases the peers announce two client features of one type in one entity.",
    "C02": " Delete selectors may be present but empty (they select every item).",
    "C03": " Entity removal: one notification announces one to three entities of a peer as removed (partial entries in any order, mixed with an added entry for a known entity, or a full notification that omits them), writers on every removed entity are probed afterwards; a binding delete request of the holder counts as deletion whatever device parts it omits and however it is answered.",
    "C04": " Run besidelocal: an accepted partial write of one element leaves a rendezvous together with a local partial update of another element of the same list; afterwards both values are there. Delete selectors may name non-identifier elements, part of the identifier or nothing (several addressed elements); delete elements may name a sub element (value.scale) - P4 does not compare the new content of an element then.",
    "C05": " Template discovery-read-filtered: a detailed-discovery read with a partial filter carrying entity / feature / device selectors and elements.",
    "C07": " In a third of the histories a connection without SHIP writer (every send fails) subscribed to node management before everybody else.",
    "C08": " Failing local updates also come as a filter on a function of the feature's own type that takes no restricted updates. Delete requests of announced peers may name a foreign device in the client address: they address no entry of the sender.",
    "C09": " Delete requests of announced peers may name a foreign device in the client address: they address no binding of the sender and must fail.",
    "C11": " Run remoteusecase: use case data a peer reported (DataCopy of its NodeManagement feature, DeviceRemote.UseCases(), event payloads) against later entity removals / additions, further use case replies and notifications, removals by another peer and the disconnect.",
    "C12": " A drawn subset of the callbacks gives its verdicts from inside the invocation (which lasts until the verdict is due, for a silent callback until the case ends); a third of the writes are filter-less writes of the complete list, most of them repeating the data the feature currently holds; the data at the end must be the initial data with the approved writes applied in some order.",
    "C10": " Entities also disappear by partial notifications with several entries (removed known / removed unknown / added, any order, with or without device part) and by complete filter-less notifications that omit known entities and may list new ones ([3], [4]); per notification exactly the entries of the entities that disappeared are gone, one remove event per entry and per entity, and a notification that removes nothing changes nothing.",
    "C14": " A share of the messages is handed to the local feature's exported HandleMessage (built as ProcessCmd builds it), with and without msgCounterReference: without one a message references no request and no callback of either kind may run. A quarter of the callbacks register a follow-up response or result callback from inside their first invocation; every arrival and the goroutine barrier run under the lock watchdog (a handling or callback that never returns is a violation with the dump as evidence).",
    "C15": " Handler objects of one case are partly or wholly alike in content (distinct pointers, equal fields; identity kept by pointer in a log of the test) in the bus, core-first and levels runs: a subscription is one of the object, not of its content.",
    "C16": " Sequential scenario with a time-out of exactly 2 s (the boundary of the shortening rule).",
    "C17": " Storm restricted-updates-of-many-list-types (runs first): six goroutines apply partial and delete updates to all keyed list functions of all feature types on different local features.",
    "C18": " A quarter of the reply / notify / write cells are built before the function ever got data.",
    "C19": " Period texts are also decoded into receivers that held another period before (a used variable, the period member of an item decoded twice); durations and instants also go through GetDurationType / GetDateTimeType.",
    "C20": " Scenario lists are given in the drawn order or with a scenario named twice in half of the additions.",
}
for _k, _v in _RULE_ADDENDA_6.items():
    PROPS[_k]["rule"] += _v

# ... and after the seventh round
_RULE_ADDENDA_7 = {
    "C01": " A sixth of the requests carry the optional addressOriginator.",
    "C02": " Partial updates may mix items with and without identifiers: only the invariants (one item per identifier, order) are judged for them.",
    "C03": " A fifth of the write datagrams carry a second command for the read-only function: its data stays.",
    "C05": " In an eighth of the cases the connections have carried 100 notifications before the messages arrive.",
    "C06": " A new entity may be listed twice in one reply / complete notification.",
    "C07": " addFunction sometimes adds a function of another feature type; application entities may be of the type DeviceInformation.",
    "C10": " The application may remove its local entity [2] or [1,1]; entries peers hold on its server features are torn down - one event each - with the peer.",
    "C11": " Origin local-append-set: the application appends to the list of the copy it obtained and hands it back with SetData.",
    "C14": " Client features also send real read requests and register callbacks for the returned counters; the answering peer is drawn independently of the asked one; a peer nobody waits for may disconnect and reconnect while callbacks are pending.",
    "C16": " AddFunctionType(heartbeat) for a feature that has the function already occurs anywhere in the histories: nothing starts or stops.",
    "C17": " Workloads: restricted notifies / replies that cannot be applied, announcements, DestinationData / DeviceType / FeatureSet readers; storm announcements-vs-device-readers.",
    "C18": " In half of the filter-carrying cells further commands with other filters are built from the same function object before the command under test is encoded.",
    "C19": " Durations are also read from their other legal spellings (PTnS, PTmMsS, PTmM, PThH); periods reach the encoder through a pointer, by value, as struct member or map value.",
    "C20": " One of the use case names differs from another in capitalisation only.",
}
for _k, _v in _RULE_ADDENDA_7.items():
    PROPS[_k]["rule"] += _v

# ... and after the eighth round
_RULE_ADDENDA_8 = {
    "C01": " A quarter of the reads of list functions are restricted by a selector in the form the stack's own requests have (partial filter, empty function element); the payload of such a reply is not compared.",
    "C02": " Run periods: time periods compared as held in memory - a restricted update that mentions no period leaves every period (relative, absolute, absent) as it was. The application may hand the same update value (object) in again later in the history.",
    "C03": " Bind-then-write and random writes also use the Generic client feature on typed server features, typed and special-role clients on the Generic server feature; in a third of the histories one peer announces itself without device address and takes part in all operations including disconnect + reconnect-then-write.",
    "C04": " Run periods: an accepted write of one element's value leaves the time periods (relative, absolute) of all elements as held in memory. In the combined shape the partial part may name an element by selector while the command carries no item.",
    "C07": " The application may add features to the device information entity [0]; a seventh of the features have the role special.",
    "C08": " Local data changes also concern a function the application never announced; the peer may send its discovery data again and its sub entity [2,1] may go and come back; the registry mix checks the ids over the whole registry after entries were added at the same moment.",
    "C09": " Operations rediscovery (the peer sends its discovery data again) and subEntity (the peer's sub entity [2,1] is announced as removed and added again: its own bindings go, those of [2] stay).",
    "C11": " billListData (nested positions) is in the quick subset. Run otherfunctions: non-persisting and failing updates of non-list functions and of list functions without identifiers.",
    "C12": " In a quarter of the cases per writing peer, the peer re-announces its writing entity (lastStateChange added, same features) between the arrival of its writes and the verdicts; the pending writes are judged as before.",
    "C14": " Run sameCallback: 2-4 goroutines register the same callback for the same 64 counters from a spinning rendezvous; exactly one registration per counter is accepted, the answer invokes it once.",
    "C10": " One peer now and then never tells its device address in its discovery data (known by SKI only, otherwise a full peer); local client features also subscribe / bind late, to a feature of an entity the peer has announced as removed meanwhile.",
    "C16": " Announced-period test: the subscriber's connection may take 40-50 % of a period per notification without ever stalling.",
    "C17": " Storm heartbeat-setup-vs-stop: AddFunctionType(heartbeat) against StopHeartbeat / RemoveEntity of the same entity from a rendezvous. The lock watchdog also reports a goroutine inside spine-go waiting for one mutex for three minutes on end.",
    "C19": " A value an earlier conversion returned may serve as the receiver of a decoded scaled number before the next conversion.",
}
for _k, _v in _RULE_ADDENDA_8.items():
    PROPS[_k]["rule"] += _v

# ... and after the ninth (half) round
_RULE_ADDENDA_9 = {
    "C02": " Run concurrent: four goroutines apply partial updates adding different items to one function at the same moment; the list holds all of them afterwards.",
    "C05": " The mutator also leaves lists present but empty; the add notification may carry an odd (empty, very deep) address of the new entity.",
    "C06": " Complete notifications may leave entity [0] out (down to an empty list); the feature information list comes in any order in a third of the messages.",
    "C11": " Origin local-mirror: a watched data set is handed in as the new data of a local partial update. Use case entries of the peer may lack the device part.",
    "C15": " Levels run: a third of the publications repeat the previous payload exactly; a quarter of the handlers are comparable struct values with a value receiver. Bus histories and handler scripts (un)subscribe on the core level too (build-tag hook; 1 in 3), the core level subscription of an object being judged as a subscriber of its own (delivery = on the publishing goroutine); in the levels run core level handlers (un)subscribe (level, handler) pairs from inside Publish - touched pairs 0 or 1 delivery, all others exactly the subscriptions in force.",
    "C18": " In half of the cells commands with filters were built from the same function object before the command under test.",
    "C03": " The complete removal notification also announces, in half of the cases, an entity the peer did not have so far.",
    "C10": " The bookkeeping snapshot includes the stack's own node management subscription towards the peer.",
    "C12": " The header of a write asks for an acknowledgement, carries no ackRequest element, or declines it explicitly (ackRequest false); in the last two forms an approved write is applied without any result.",
    "C13": " Operation respLate: a response that arrives after the peer announced its entity as removed still re-enables sending.",
    "C14": " One local feature lives on a nested entity [1,1] and has the number, type and role of a feature of [1].",
}
for _k, _v in _RULE_ADDENDA_9.items():
    PROPS[_k]["rule"] += _v
