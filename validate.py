#!/usr/bin/env python3-vt
import json, glob, jsonschema, sys
ok = True
jsonschema.validate(json.load(open('/verif/MANIFEST.json')), json.load(open('/root/.vp/MANIFEST.schema.json')))
es = json.load(open('/root/.vp/EVIDENCE.schema.json'))
for f in sorted(glob.glob('/verif/evidence/*.json')):
    try:
        jsonschema.validate(json.load(open(f)), es)
    except Exception as e:
        ok = False
        print("INVALID", f, str(e)[:300])
print("schemas ok" if ok else "schemas FAILED")
sys.exit(0 if ok else 1)
