#!/usr/bin/env python3
"""Regenerates MANIFEST.json from checks_config.py + manifest_meta.py."""
import json, os, sys
ROOT = os.path.dirname(os.path.abspath(__file__))
sys.path.insert(0, ROOT)
from checks_config import PROPS
from manifest_meta import META, HOOK_COMMITS, NOT_BUILT_REASON

ids = [json.loads(l)["id"] for l in open(os.path.join(ROOT, "properties.jsonl"))]
checks, na = [], []
for pid in ids:
    if pid in PROPS and pid in META:
        m = META[pid]
        checks.append({
            "property_id": pid,
            "quick_cmd": f"./check {pid} --tier quick",
            "thorough_cmd": f"./check {pid} --tier thorough",
            "evidence_file": f"/verif/evidence/{pid}.json",
            "replay_cmd_template": f"./check {pid} --replay {{path}}",
            "engine": "rapid-go-harness",
            "level_claimed": {"category": "exploration", "text": m["level_text"], "design_ref": m["design_ref"]},
            "level_note": m["level_note"],
            "technique": m["technique"],
        })
    else:
        na.append({"property_id": pid, "reason": NOT_BUILT_REASON.get(pid, "check not built yet (planned, DESIGN.md section 8); nothing is claimed for it")})
manifest = {
    "version": 1,
    "setup_cmd": "./check --setup",
    "hooks": {
        "guard": "verif",
        "enable": "go test -tags verif (the harness module replaces github.com/enbility/spine-go => /repo, so every check recompiles /repo's working tree)",
        "baseline_off_cmd": "cd /repo && go test -vet=off -count=1 ./...",
        "source_commits": HOOK_COMMITS,
        "add_only": True,
    },
    "engines": [{"name": "rapid-go-harness", "path": "/verif/harness", "serves_properties": [c["property_id"] for c in checks],
                 "kind_free_text": "Go module: pgregory.net/rapid v1.3.0 properties and state machines, native go fuzzing, -race campaigns, build-tag yield points with an enumerating scheduler; python driver ./check shards, classifies, writes evidence"}],
    "checks": checks,
    "not_applicable": na,
    "notes": "Technique family: property-based testing and fuzzing only. Known findings: /verif/known_findings.json. See DESIGN.md.",
}
json.dump(manifest, open(os.path.join(ROOT, "MANIFEST.json"), "w"), indent=1)
print("claimed:", [c["property_id"] for c in checks])
